"""Per-property parameters of the generic check (lib/vcheck.py)."""

COMMON_TRUSTED = [
    "Coq 8.16.1 kernel and vm_compute (no native_compute); full .vo build",
    "tools/go2coq (Go source -> Gen/*.v) and the semantics it gives Go operators",
    "the Go harness: generators, renderers, canonicaliser of observed answers, emitter of Coq case files",
]

ENGINE_TRUSTED = COMMON_TRUSTED + [
    "hand-written machine model M (Model/Machine.v, Clause.v, Unify.v, Order.v): tied to engine/*.go by the correspondence run only",
    "reference semantics S (Model/Sld.v): the statement of what standard Prolog execution is",
    "Gen/Bootstrap_gen.v is regenerated from bootstrap.pl through the implementation's own parser (trusted for this purpose)",
]
ENGINE_MODEL_DEPS = ["Model/MachineCheck.v"]

SPECS = {
    "C01": dict(
        level="proof",
        props_deps=["Proofs/Promise.v", "Proofs/Trampoline.v", "Proofs/FuelMono.v", "Proofs/ForceComplete.v"],
        model_deps=ENGINE_MODEL_DEPS,
        trusted=ENGINE_TRUSTED,
        assumptions=["programs that build cyclic terms are outside the quantifier (the engine dies on them); such cases are dropped and counted",
                     "runs cut off by the 150 ms budget or by the model's fuel are dropped and counted"],
        explanation="every generated program+query is run on the implementation, on the machine model M and on the reference semantics S "
                    "(vm_compute); C<>S is a failing input of the property, C<>M a broken correspondence",
    ),
    "C02": dict(
        level="proof", props_deps=["Proofs/Unify.v", "Proofs/UnifySound.v", "Proofs/HeadExec.v"], model_deps=["Model/TermCheck.v"],
        trusted=COMMON_TRUSTED + ["hand-written Model/Unify.v (Resolve/unify/contains over abstract terms and a finite-map env), tied to engine/env.go by the correspondence run"],
        assumptions=["pairs subject to occurs check are only used with unify_with_occurs_check/2 (decided by the harness's own unifier)",
                     "the red-black tree of engine/env.go is abstracted to a finite map"],
        search=False,
        explanation="pairs of terms rendered through every list/string construction path; =/2 both ways, unify_with_occurs_check/2, ==/2 after success, \\+ =/2, head unification; the model's unifier evaluated on the abstract pair; the property's algebraic laws (symmetry, identity after success, no bindings after failure, representation independence, agreement of the two unifiers) evaluated on the implementation for every pair",
    ),
    "C08": dict(
        level="proof", props_deps=["Proofs/Order.v"], model_deps=["Model/TermCheck.v"],
        trusted=COMMON_TRUSTED + ["hand-written Model/Order.v (Compare methods over abstract terms), tied by the correspondence run",
                                  "sort.Slice / sort.SliceStable are specified by what they return (sorted, stable): the model sorts by insertion"],
        assumptions=["laws relating several calls are asserted on ground terms only (the order of two distinct unbound variables is implementation dependent)"],
        search=False,
        explanation="compare/3 on pairs and triples rendered through all construction paths, ==/2, the order operators of bootstrap.pl, sort/2 with duplicates, keysort/2 stability on long lists; the model's order and sort evaluated on the abstract terms",
    ),
    "C18": dict(
        level="proof", props_deps=["Proofs/OpTable.v"], model_deps=["Model/OpCheck.v"],
        trusted=COMMON_TRUSTED + ["hand-written Model/OpTable.v (Op, validateOp, operators.define/remove), tied by the correspondence run",
                                  "the initial table is recomputed in Coq from the op/3 directives of bootstrap.pl (Gen/Bootstrap_gen.v)"],
        assumptions=["current_op/3 is observed through findall/3 with all three arguments unbound; map iteration order is ignored (sets are compared)"],
        search=False,
        explanation="histories of op/3 calls: outcome of every call and the whole table after every call compared with the model; ISO restrictions and failed-call-is-noop evaluated on the enumerated table; reader probed",
    ),
    "C20": dict(
        level="proof", props_deps=["Proofs/Loader.v"], model_deps=["Model/LoaderCheck.v"],
        trusted=COMMON_TRUSTED + ["hand-written Model/Loader.v (VM.Compile / compile / directive / text.flush / forEachUserDefined of engine/text.go over the sequence of read terms; clauses abstracted to (predicate, identity)), tied by the correspondence run",
                                  "the reader, term expansion and clause compilation are not modelled: a read term is an item (clause of p, declaration, directive, fault)"],
        assumptions=["directives are free of database effects (the property's quantifier); include/1 and ensure_loaded/1 inside a text are not generated",
                     "a failing initialization goal is reported after the commit, as the property places initialization goals after the load"],
        search=False,
        explanation="histories of loads (Exec and consult/1) and assertz calls on one interpreter, every fault kind swept over the positions of a text; error kind, output and the clause lists of all predicates after every operation compared with the model and with the property read as a specification",
    ),
    "C16": dict(
        level="proof", props_deps=["Proofs/Rel.v", "Proofs/Unify.v", "Proofs/UnifySound.v"], model_deps=["Model/RelCheck.v"],
        trusted=COMMON_TRUSTED + ["hand-written Model/Rel.v: the relations themselves (enumerations proved exact) and answers = candidates unifiable with the arguments, by the unification model of C02; it is a specification-level model, not a mirror of builtin.go, tied by the correspondence run",
                                  "UTF-8 decoding of atom text in the model (uchars); Coq string literals are byte strings"],
        assumptions=["modes: those the implementation admits (ISO): arg/3 with N an integer, between/3 with integer bounds, length/2 with a partial list only when the length is given",
                     "calls whose answers are cyclic terms (a variable shared between a list and the result) are dropped",
                     "atoms with characters the reader rejects in quoted atoms (U+1F600) are not generated; a 4-byte letter (U+2000B) is used instead"],
        search=False,
        explanation="calls of the 17 built-ins in every admitted instantiation pattern; all answers collected as instances of the argument tuple and compared as a multiset modulo variable renaming with the relation's tuples that unify with the arguments",
    ),
    "C19": dict(
        level="proof", props_deps=["Proofs/Stream.v"], model_deps=["Model/StreamCheck.v"],
        trusted=COMMON_TRUSTED + ["hand-written Model/Stream.v: the stream as source bytes + cursor + past flag + eof_action; bufio.Reader, the source kinds and the buffer boundary are abstracted to the cursor, 'at' and 'not' are identified when nothing remains",
                                  "read/1 is modelled by a small reader (layout, line and block comments, atoms of letters/digits, unsigned integers, end token); a source position outside it ends the comparison of that case",
                                  "the output half (put_char/nl/write reach the sink in program order) is evaluated on the implementation only"],
        assumptions=["sources are bytes 0..255; U+FFFD itself is not generated",
                     "host-provided streams are installed as user_input (the only way the API offers); files are opened by open/4"],
        search=False,
        explanation="sources x operation sequences issued within one query and across queries, on strings.Reader / data-with-EOF reader / one-byte reader / files with each eof_action; every result and error compared with the cursor model; output sequences compared with the sink",
    ),
    "C17": dict(
        level="proof", props_deps=["Proofs/Dcg.v"], model_deps=["Model/DcgCheck.v", "Model/MachineCheck.v"],
        trusted=ENGINE_TRUSTED + ["hand-written Model/Dcg.v (mirror of dcg.go: expandDCG, dcgBody, dcgCBody, dcgNonTerminal, dcgTerminals, the construct table), tied by the expand_term/2 comparison and by running its output on M and S",
                                  "the semantic theorem covers the context-free core (terminals, non-terminals, sequence, alternation); for {}//1, \\+//1, !//0, call//N, if-then-else, arguments and push-back the preservation is checked on the implementation against the reference semantics S of the translated program, not proved"],
        assumptions=["grammars are not left-recursive; answers are compared in order up to the answer limit",
                     "a variable as a grammar body (phrase//1 at run time) is not generated"],
        explanation="grammars over every construct x all input lists up to length 3 in recognition, remainder, bound-remainder and generation mode; expand_term/2 output compared with the mirrored translation; phrase/2,3 answers compared with the translated program on M and S",
    ),
    "C14": dict(
        level="proof", props_deps=["Proofs/Atoms.v", "Gen/Shared_gen.v"], model_deps=["Model/SharedCheck.v"],
        trusted=COMMON_TRUSTED + ["tools/go2coq shared: package-level variables by go/types, access kinds and lock contexts syntactically per function (X.Lock ... Unlock / defer), the critical sections of NewAtom by statement shape; unexported functions nothing refers to are listed as dead",
                                  "sync.RWMutex and sync/atomic behave as documented (a write-locked section excludes every other section on the same mutex); the Go memory model is not formalised",
                                  "state reachable only through pointers (fields of *VM, *Promise, *Stream) is not summarised: that interpreters share none of it is checked by the isolation matrix and the race detector, not proved",
                                  "the four reviewed sites in Model/Shared.v (addr_reviewed) where the address of a package-level variable is taken",
                                  "the Go race detector (-race) for the concurrent runs"],
        assumptions=["one goroutine per interpreter (the property's usage rule)"],
        search=False,
        explanation="the shared-state summary regenerated from the source on this run, the discipline evaluated on it, NewAtom's critical sections checked against the shapes the interleaving theorems cover; 2-8 interpreters run concurrently under the race detector and compared with runs alone; concurrent interning of identical fresh atoms; state changers against observers across interpreters",
    ),
    "C05": dict(
        level="proof", props_deps=["Proofs/NoPanic.v", "Proofs/ArithInt.v", "Gen/Arith_gen.v"], model_deps=[],
        trusted=COMMON_TRUSTED + ["PARTIAL: the theorems cover the integer arithmetic kernels and integer expressions (regenerated from number.go) and the error constructors of the machine model; the reader, the other built-ins and the float kernels are not proved free of panics",
                                  "for everything else the property is decided by enumeration on the implementation: every registered predicate x argument shapes and every short byte string, each in a fresh interpreter inside an isolated worker process (memory limit, step budget, watchdog); that part is exhaustive-over-shapes testing, not proof",
                                  "the registry is read from interpreter.go (Register<N> calls) and bootstrap.pl (through the implementation's reader) on every run"],
        assumptions=["halt/0,1 and cyclic terms are excluded (as the property says); inputs beyond the 4 GB address-space limit of a worker are not generated",
                     "throw/1 delivering the caller's ball is not an error raised about its arguments",
                     "a goal that runs until the step budget while polling the context (repeat/0, between/3 to inf ...) is neither a crash nor a wedge"],
        search=False,
        explanation="registered predicates x 26 argument shapes (all for arity 1, pairs for arity 2, samples above) and byte strings (all up to length 2 over 31 symbols, samples and all of length 3 in the thorough tier, truncations and mutations of valid texts) as query and program text; outcome of every task classified: answers / failure / ISO error / rejected text / budget / panic residue / non-ISO error / process aborted / wedged",
    ),
    "C06": dict(
        level="proof", props_deps=["Proofs/Canon.v", "Proofs/Quote.v", "Proofs/CanonLex.v"], model_deps=["Model/Canon.v", "Model/CanonLex.v", "Model/QuoteCheck.v"],
        trusted=COMMON_TRUSTED + ["PARTIAL: hand-written Model/Canon.v (tokens, canonical printer, recursive-descent reader) covers plain atoms, integers and compounds in functional notation; the printer's text is compared with write_canonical/1; Model/CanonLex.v (a maximal-munch lexer for names, decimal integers and ( ) ,) reads the implementation's text back and must return the term, as read_term does on the implementation",
                                  "hand-written Model/Quote.v (quote() of atom.go; quotedToken/escapeSequence of lexer.go with the unescaping of parser.go) over code points, parametric in isSingleQuotedCharacter; its text is compared with writeq/1 on random atoms, with accept_gen standing for isSingleQuotedCharacter on the generator's characters",
                                  "operators of every specifier and priority, user operator tables, quoting and escapes, floats, variables, lists, curly terms, double_quotes: decided by round trips on the implementation over generated terms (terms are built with atom_codes/2, =../2 and Go floats, not through the reader); that part is testing, not proof"],
        assumptions=["'$VAR'(N) terms are not generated (numbervars output is not re-readable by definition)",
                     "the comparison is structural on the terms read back through Solutions.Scan, floats by their bits, variables up to renaming"],
        search=False,
        explanation="generated terms x operator tables after random op/3 sequences x double_quotes, written by writeq / write_canonical / write_term(quoted) with and without ignore_ops, read back by read_term and compared; number_codes and number_chars on 64-bit integers and finite floats; canonical-fragment terms also compared with the model's printer",
    ),
    "C12": dict(
        level="proof", props_deps=["Proofs/Solutions.v"], model_deps=["Model/SolutionsCheck.v"],
        trusted=COMMON_TRUSTED + ["hand-written handshake model Model/Solutions.v under run-to-block semantics; Go channels, scheduler and memory model are not modelled"],
        assumptions=["the search for the next answer terminates (producers are finite or deliver answers for ever)",
                     "a call that has not returned within 300 ms is counted as blocked"],
        search=False,
        explanation="exhaustive over scripts of Next/Scan/Err/Close up to the length bound x producers; every call under a watchdog; results compared with the model; goals after Close, goroutines and interleaved iterations checked directly",
    ),
    "C15": dict(
        level="proof", props_deps=["Proofs/Scan.v", "Gen/Scan_gen.v"], model_deps=["Model/ScanCheck.v"],
        trusted=COMMON_TRUSTED + ["tools/go2coq scan: syntactic extraction of case clauses, range guards and conversions from convertAssign*",
                                  "reflect-based dispatch (struct fields, maps, slices, interface{}) is observed, not modelled"],
        assumptions=["the placeholder half (a Go value behaves like the literal denoting it) is evaluated on the implementation only: the reader is not modelled",
                     "float32 destinations are outside the property's list"],
        search=False,
        explanation="theorems over the numeric conversions regenerated from solutions.go on this run; every boundary integer into every destination compared with the model; placeholders compared with the structure of the Go value and with the literal",
    ),
    "C03": dict(
        level="proof", props_deps=["Proofs/Promise.v", "Proofs/Trampoline.v", "Proofs/FuelMono.v", "Proofs/ForceComplete.v"], model_deps=ENGINE_MODEL_DEPS, trusted=ENGINE_TRUSTED,
        assumptions=["cut placements outside the property's quantifier (a cut nested in a non-top-level disjunction, in a then/else branch or under a left-nested conjunction) are not generated"],
        explanation="as C01, over programs with cut in the placements the property names, \\+, once, ->, call/N, findall",
    ),
    "C04": dict(
        level="proof", props_deps=["Proofs/Promise.v", "Proofs/Trampoline.v", "Proofs/FuelMono.v", "Proofs/ForceComplete.v"], model_deps=ENGINE_MODEL_DEPS, trusted=ENGINE_TRUSTED,
        assumptions=["only the Formal of error(Formal, Context) is compared"],
        explanation="as C01, over programs with catch/3, throw/1 and built-in errors",
    ),
    "C09": dict(
        level="proof", props_deps=["Proofs/Db.v"], model_deps=ENGINE_MODEL_DEPS, trusted=ENGINE_TRUSTED,
        assumptions=["a retract alternative whose clause was already removed by another update fails (it is not removed twice)"],
        explanation="database histories run on the implementation, M and S; the final listing and all answers compared",
    ),
    "C10": dict(
        level="proof", props_deps=["Proofs/Compile.v", "Proofs/Unify.v", "Proofs/UnifySound.v", "Proofs/HeadExec.v"], model_deps=ENGINE_MODEL_DEPS, trusted=ENGINE_TRUSTED,
        assumptions=["the recorded storage convention F3a is recognised by running S with that convention (Model/Sld.v ss_split)"],
        explanation="clauses loaded as text and asserted, observed through clause/2, retract/1 and calls, on the implementation, M and S",
    ),
    "C13": dict(
        level="proof", props_deps=["Proofs/Cancel.v", "Proofs/Trampoline.v"], model_deps=ENGINE_MODEL_DEPS, trusted=ENGINE_TRUSTED + [
            "a harness-side context.Context whose Done channel is closed from the n-th poll on makes the cancellation instant deterministic"],
        assumptions=["wall-clock latency (bound 250 ms) is measured on the implementation, not proved",
                     "the cost of a single thunk is bounded by the size of the terms it is handed (cyclic terms excluded)"],
        search=False,
        explanation="looping programs x cancellation instants: the implementation and M are compared poll for poll (answers delivered before the instant, ending); the property (context error returned, bounded further polls, bounded wall time, interpreter usable afterwards) is evaluated on every run",
    ),
    "C11": dict(
        level="proof", props_deps=["Proofs/Groups.v"], model_deps=ENGINE_MODEL_DEPS, trusted=ENGINE_TRUSTED,
        assumptions=["setof/3 results whose order hinges on the order of distinct unbound variables are not generated",
                     "group order is compared as produced (first occurrence of each witness)"],
        explanation="as C01, over programs with findall/bagof/setof in bodies and as queries",
    ),
    "C07": dict(
        level="proof",
        props_deps=["Proofs/ArithInt.v", "Proofs/FloatKernels.v", "Proofs/FloatToInt.v", "Proofs/FloatCompare.v", "Proofs/FloatIntPart.v", "Gen/Arith_gen.v"],
        model_deps=["Model/EvalCheck.v"],
        trusted=COMMON_TRUSTED + [
            "Flocq 4 IEEE754.Binary/Bits as the meaning of float64 + - * / comparisons, float64(int64), math.Floor/Ceil/Trunc/Round",
            "hand-written Model/Eval.v for eval/is/comparison dispatch (tied by the correspondence run only)",
        ],
        assumptions=[
            "number leaves reach the evaluator through placeholders (no literal parsing involved)",
            "transcendental functions (sin cos atan exp log sqrt ** ...) are outside the statement and unmodelled",
        ],
        explanation="theorems over the model regenerated from engine/number.go on this run; correspondence: every generated "
                    "expression evaluated by the implementation and by the model (vm_compute); oracle: exact arithmetic (math/big) "
                    "and IEEE doubles evaluated by the harness on every case",
    ),
}
