"""Driver shared by every property check (see DESIGN.md section 2.2).

Steps of one check:  regenerate Gen/*.v from /repo -> make the Coq project
(full .vo build) -> audit (no Admitted/Axiom/...) -> theorem inventory and
Print Assumptions for Props/Cxx.v -> build the Go harness against /repo's
working tree (-tags verif) -> run it (implementation side + property oracle)
-> evaluate the model on the same cases with coqc/vm_compute -> verdict,
replay files, evidence.
"""
import fcntl
import glob
import hashlib
import json
import os
import re
import subprocess
import sys
import time
from concurrent.futures import ThreadPoolExecutor

ROOT = os.path.dirname(os.path.dirname(os.path.abspath(__file__)))
REPO = os.environ.get("VERIF_REPO", "/repo")
COQ = os.path.join(ROOT, "coq")
WORK = os.path.join(ROOT, "work")
BIN = os.path.join(ROOT, "bin")
GOENV = dict(os.environ, GOFLAGS="-mod=mod", GOPROXY="off", GOSUMDB="off", GOTOOLCHAIN="local",
             CGO_ENABLED=os.environ.get("CGO_ENABLED", "1"))

FORBIDDEN = re.compile(r"\b(Admitted|admit|Axiom|Axioms|Parameter|Parameters|Conjecture|Conjectures|Hypothesis|Variable|Variables|Hypotheses)\b|Unset\s+Guard|bypass_check|Unset\s+Positivity|Unset\s+Universe|type-in-type|impredicative-set|Admit\s+Obligations")


def sh(cmd, cwd=None, env=None, timeout=None, inp=None):
    p = subprocess.run(cmd, cwd=cwd, env=env or GOENV, stdout=subprocess.PIPE, stderr=subprocess.STDOUT,
                       timeout=timeout, input=inp, text=True)
    return p.returncode, p.stdout


class Lock:
    def __init__(self, name):
        self.path = os.path.join(ROOT, "." + name + ".lock")

    def __enter__(self):
        self.f = open(self.path, "w")
        fcntl.flock(self.f, fcntl.LOCK_EX)
        return self

    def __exit__(self, *a):
        fcntl.flock(self.f, fcntl.LOCK_UN)
        self.f.close()


def build_tools():
    """go2coq (translator) and the harness, both rebuilt from source (go build is cached)."""
    os.makedirs(BIN, exist_ok=True)
    with Lock("go"):
        rc, out = sh(["go", "build", "-o", os.path.join(BIN, "go2coq"), "."], cwd=os.path.join(ROOT, "tools", "go2coq"), timeout=600)
        if rc != 0:
            return False, "go2coq build failed:\n" + out
        hdir = os.path.join(ROOT, "harness")
        try:
            with open(os.path.join(REPO, "go.sum")) as f:
                want = f.read()
            cur = open(os.path.join(hdir, "go.sum")).read() if os.path.exists(os.path.join(hdir, "go.sum")) else None
            if cur != want:
                open(os.path.join(hdir, "go.sum"), "w").write(want)
        except OSError:
            pass
        rc, out = sh(["go", "build", "-tags", "verif", "-o", os.path.join(BIN, "harness"), "."], cwd=hdir, timeout=900)
        if rc != 0:
            return False, "harness build failed (does /repo still compile with -tags verif?):\n" + out
    return True, ""


def build_race_harness():
    """The harness once more, with the Go race detector compiled in (C14 only)."""
    with Lock("go"):
        rc, out = sh(["go", "build", "-race", "-tags", "verif", "-o", os.path.join(BIN, "harness-race"), "."],
                     cwd=os.path.join(ROOT, "harness"), timeout=1200)
    return rc == 0, out


GENERATORS = ["arith", "scan", "shared"]


def regenerate():
    """Run the translator; a failure means the source left the translatable subset."""
    rc, out = sh([os.path.join(BIN, "go2coq"), "-repo", REPO, "-out", os.path.join(COQ, "Gen")] + GENERATORS, timeout=600)
    # bootstrap.pl through the implementation's own parser
    rc2, out2 = sh([os.path.join(BIN, "harness"), "-repo", REPO, "-out", os.path.join(COQ, "Gen"), "gen-bootstrap"], timeout=300)
    return rc == 0 and rc2 == 0, out + out2


def coq_make(jobs=16, timeout=3000):
    with Lock("coq"):
        if not os.path.exists(os.path.join(COQ, "Makefile")) or \
                os.path.getmtime(os.path.join(COQ, "Makefile")) < os.path.getmtime(os.path.join(COQ, "_CoqProject")):
            rc, out = sh(["coq_makefile", "-f", "_CoqProject", "-o", "Makefile"], cwd=COQ)
            if rc != 0:
                return False, out
        rc, out = sh(["make", "-k", "-j", str(jobs)], cwd=COQ, timeout=timeout)
    os.makedirs(WORK, exist_ok=True)
    with open(os.path.join(WORK, "coq_build.log"), "w") as f:
        f.write(out)
    return rc == 0, out


def vo_ok(rel):
    """The .vo exists and is up to date with respect to ALL its dependencies
    (asked of make itself, so a proof that failed to rebuild is noticed even if an
    older .vo is still lying around)."""
    vo = os.path.join(COQ, rel + "o")
    if not os.path.exists(vo):
        return False
    with Lock("coq"):
        rc, _ = sh(["make", "-q", rel + "o"], cwd=COQ, timeout=300)
    return rc == 0


def audit():
    bad = []
    for path in glob.glob(os.path.join(COQ, "**", "*.v"), recursive=True):
        if "/Cases/" in path:
            continue
        txt = open(path).read()
        txt = re.sub(r"\(\*.*?\*\)", "", txt, flags=re.S)
        for m in FORBIDDEN.finditer(txt):
            # `Variable`/`Hypothesis` are allowed inside a Section only
            word = m.group(0)
            if word.split()[0] in ("Variable", "Variables", "Hypothesis", "Hypotheses"):
                before = txt[:m.start()]
                if before.count("Section ") > len(re.findall(r"\bEnd\s+\w+\.", before)):
                    continue
            bad.append("%s: %s" % (os.path.relpath(path, ROOT), word))
    return bad


def theorems(pid):
    path = os.path.join(COQ, "Props", pid + ".v")
    txt = open(path).read()
    txt = re.sub(r"\(\*.*?\*\)", "", txt, flags=re.S)
    return re.findall(r"^\s*(?:Theorem|Example)\s+([A-Za-z0-9_']+)", txt, flags=re.M)


def assumptions(pid, names):
    """Print Assumptions for every theorem of Props/<pid>.v (cached by .vo hash)."""
    vo = os.path.join(COQ, "Props", pid + ".vo")
    h = hashlib.sha256(open(vo, "rb").read()).hexdigest()[:16]
    cache = os.path.join(WORK, "assumptions_%s_%s.json" % (pid, h))
    if os.path.exists(cache):
        return json.load(open(cache))
    src = "From PV Require Import Props.%s.\n" % pid
    for n in names:
        src += 'Goal True. idtac "@@ %s". Abort.\nPrint Assumptions %s.\n' % (n, n)
    d = os.path.join(WORK, pid)
    os.makedirs(d, exist_ok=True)
    f = os.path.join(d, "assume_%s.v" % pid)
    open(f, "w").write(src)
    rc, out = sh(["coqc", "-Q", COQ, "PV", f], timeout=900)
    res = {"ok": rc == 0, "closed": [], "axioms": {}, "raw_tail": out[-2000:] if rc != 0 else ""}
    cur = None
    for line in out.splitlines():
        if line.startswith("@@ "):
            cur = line[3:].strip()
            res["axioms"][cur] = []
        elif cur and "Closed under the global context" in line:
            res["closed"].append(cur)
        elif cur and re.match(r"^[A-Za-z_][\w.']*\s*:", line):
            res["axioms"][cur].append(line.split(":")[0].strip())
    if rc == 0:
        json.dump(res, open(cache, "w"))
    return res


def run_harness(pid, tier, seed, extra=None, timeout=3000):
    out = os.path.join(WORK, pid)
    os.makedirs(out, exist_ok=True)
    for f in glob.glob(os.path.join(out, "cases_*")) + glob.glob(os.path.join(out, ".cases_*")) + glob.glob(os.path.join(out, "run.json")):
        os.remove(f)
    binary = "harness"
    if pid == "C14":
        ok, blog = build_race_harness()
        if not ok:
            return None, "harness build with -race failed:\n" + blog
        binary = "harness-race"
    cmd = [os.path.join(BIN, binary), "-out", out, "-seed", str(seed), "-tier", tier] + (extra or []) + [pid]
    rc, log = sh(cmd, timeout=timeout)
    if not os.path.exists(os.path.join(out, "run.json")) or (rc != 0 and "WARNING: DATA RACE" not in log):
        return None, log
    run = json.load(open(os.path.join(out, "run.json")))
    if "WARNING: DATA RACE" in log:
        # every report of the race detector is a failing schedule of the property
        reports = log.split("WARNING: DATA RACE")[1:]
        first = "WARNING: DATA RACE" + reports[0][:6000]
        where = "harness" if "/repo/" not in reports[0] and "ichiban/prolog" not in reports[0] else "implementation"
        run.setdefault("oracle_failures", [])
        run["oracle_failures"] = list(run["oracle_failures"] or []) + [{
            "id": -1, "class": "race:data-race-reported-in-the-" + where, "input": {"text": "run of bin/harness-race " + " ".join(cmd[1:])},
            "observed": first, "expected": "no report from the race detector", "detail": "%d report(s)" % len(reports)}]
        run.setdefault("distribution", {})["race-reports"] = len(reports)
    return run, log


def eval_cases(pid, files, jobs=12, timeout=420):
    """coqc each case file. A file prints `mism = [...]`: either a list of ids (disagreement
    with the model) or a list of triples (id, m, s): m/s = 0 agree, 1 disagree, 2 out of fuel,
    against the model M and the reference semantics S.
    Returns dict(model=[ids], spec=[ids], dropped=[ids]), errors."""
    d = os.path.join(WORK, pid)

    def one(f):
        try:
            rc, out = sh(["coqc", "-Q", COQ, "PV", os.path.join(d, f)], timeout=timeout)
        except subprocess.TimeoutExpired:
            return f, None, "evaluation of the model on this shard did not finish within %d s" % timeout
        if rc != 0:
            return f, None, out[-3000:]
        m = re.search(r"mism\s*=\s*\[(.*?)\]\s*:\s*list", out, flags=re.S)
        if not m:
            return f, None, out[-3000:]
        body = m.group(1).strip()
        res = {"model": [], "spec": [], "dropped": [], "spec3": []}
        if not body:
            return f, res, ""
        if "(" in body and "," in body:
            for t in re.findall(r"\(\s*(-?\d+)\s*,\s*(-?\d+)\s*,\s*(-?\d+)\s*\)", body):
                i, mm, ss = int(t[0]), int(t[1]), int(t[2])
                if mm == 2 or ss == 2:
                    # the run left the domain of M or of S (a binding subject to occurs check -- a cyclic term --
                    # or the fuel): the case is outside the quantifier, whatever the other side says about it
                    res["dropped"].append(i)
                    continue
                if mm == 1:
                    res["model"].append(i)
                if ss == 1:
                    res["spec"].append(i)
                if ss == 3:
                    res["spec3"].append(i)
        else:
            res["model"] = [int(x) for x in re.findall(r"-?\d+", body)]
        return f, res, ""

    tot = {"model": [], "spec": [], "dropped": [], "spec3": []}
    errs = []
    with ThreadPoolExecutor(max_workers=jobs) as ex:
        for f, r, e in ex.map(one, files):
            if r is None:
                errs.append("%s: %s" % (f, e))
            else:
                for k in tot:
                    tot[k] += r[k]
    for f in glob.glob(os.path.join(d, "cases_*.vo")) + glob.glob(os.path.join(d, "cases_*.glob")) + \
            glob.glob(os.path.join(d, "cases_*.vok")) + glob.glob(os.path.join(d, "cases_*.vos")) + glob.glob(os.path.join(d, ".cases_*.aux")):
        os.remove(f)
    return tot, errs


def known_findings(pid):
    """KNOWN_FINDINGS.txt:  finding: property=Cxx class=<class> replay=<path> :: text"""
    res = {}
    path = os.path.join(ROOT, "KNOWN_FINDINGS.txt")
    if not os.path.exists(path):
        return res
    for line in open(path):
        line = line.strip()
        if not line.startswith("finding:"):
            continue
        m = re.match(r"finding:\s+property=(\S+)\s+class=(\S+)\s+replay=(\S+)\s*::\s*(.*)", line)
        if m and m.group(1) == pid:
            res[m.group(2)] = m.group(4)
    return res


def write_replay(pid, name, obj):
    d = os.path.join(ROOT, "replays")
    os.makedirs(d, exist_ok=True)
    p = os.path.join(d, "%s-%s.json" % (pid, name))
    json.dump(obj, open(p, "w"), indent=1)
    return p


def write_evidence(pid, ev):
    d = os.path.join(ROOT, "evidence")
    os.makedirs(d, exist_ok=True)
    json.dump(ev, open(os.path.join(d, pid + ".json"), "w"), indent=1)


def check(pid, tier, seed, spec):
    """Generic check. spec: dict(level, props_deps=[rel .v files the property's theorems need],
    trusted=[...], assumptions=[...], harness=True, explanation=str)"""
    t0 = time.time()
    notes = []
    ok, msg = build_tools()
    if not ok:
        print(msg)
        print("ERROR property=%s cannot build tools" % pid)
        return 2
    gen_ok, gen_log = regenerate()
    if not gen_ok:
        notes.append("translator failed: " + gen_log.strip()[-500:])
    make_ok, make_log = coq_make()
    bad = audit()
    proof_files = ["Props/%s.v" % pid] + spec.get("props_deps", [])
    broken = [f for f in proof_files if not vo_ok(f)]
    if not gen_ok:
        broken.append("Gen (translation of the current source failed)")
    names = theorems(pid)
    assum = {"ok": False, "closed": [], "axioms": {}}
    if not broken:
        assum = assumptions(pid, names)
        if not assum["ok"]:
            broken.append("Print Assumptions failed")
    # thorough tier: the compiled theorems of this property, and everything they depend on, are re-checked
    # by the independent checker (coqchk), which also lists the axioms they rely on
    chk_note = None
    if tier == "thorough" and not broken:
        rc_chk, out_chk = sh(["coqchk", "-silent", "-o", "-Q", ".", "PV", "PV.Props.%s" % pid], cwd=COQ, timeout=3000)
        ax = re.findall(r"^\s+(Coq\.[\w.]+)\s*$", out_chk, flags=re.M)
        unsafe = [l.strip() for l in out_chk.splitlines() if re.search(r"relying on type-in-type|unsafe \(co\)fixpoints|positivity is assumed", l) and "<none>" not in l]
        if rc_chk != 0 or unsafe:
            broken.append("coqchk rejects Props/%s.vo: %s" % (pid, (unsafe or [out_chk[-400:]])[0]))
        else:
            chk_note = "coqchk -silent -o re-checked PV.Props.%s and its dependencies; axioms: %s" % (pid, ", ".join(ax) if ax else "none")
            notes.append(chk_note)
    # implementation side + oracle + model/spec evaluation of the same cases
    def explore(tier_, seed_):
        run_, hlog_ = run_harness(pid, tier_, seed_)
        if run_ is None:
            return None, hlog_, [], [], [], [], False
        mism_, cerrs_, spec_ids_, dropped_ = [], [], [], []
        tot = {"spec3": []}
        unavailable = False
        if run_.get("case_files"):
            if all(vo_ok(f) for f in spec.get("model_deps", [])):
                tot, cerrs_ = eval_cases(pid, run_["case_files"])
                mism_, spec_ids_, dropped_ = tot["model"], tot["spec"], tot["dropped"]
            else:
                unavailable = True
        fails_ = list(run_.get("oracle_failures") or [])
        # cases on which the implementation disagrees with the reference semantics S are failing
        # inputs of the property itself (whether or not the model M agrees with the implementation)
        for i in spec_ids_:
            fails_.append({"id": i, "class": spec.get("spec_class", pid + ":differs-from-reference-semantics"),
                           "input": run_["cases"].get(str(i)), "observed": "see replay (answers of the implementation)",
                           "expected": "the answers of the reference semantics S (Model/Sld.v)",
                           "detail": "model M %s with the implementation on this case" % ("also disagrees" if i in mism_ else "agrees")})
        for i in tot["spec3"] if run_.get("case_files") and not unavailable else []:
            fails_.append({"id": i, "class": pid + ":stored-split-or-unconverted-clause-term",
                           "input": run_["cases"].get(str(i)), "observed": "see replay",
                           "expected": "the answers of the reference semantics S",
                           "detail": "differs from S, agrees with S under the implementation's storage convention (F3a)"})
        mism_ = [i for i in mism_ if i not in spec_ids_ and i not in tot.get("spec3", [])] if run_.get("case_files") and not unavailable else mism_
        return run_, hlog_, mism_, cerrs_, fails_, dropped_, unavailable

    run, hlog, mism, cerrs, fails, dropped, corr_unavailable = explore(tier, seed)
    if run is None:
        print(hlog[-3000:])
        print("ERROR property=%s harness failed" % pid)
        return 2
    known = known_findings(pid)
    new = [f for f in fails if f["class"] not in known]
    hit = sorted(set(f["class"] for f in fails if f["class"] in known))
    exit_code = 0
    viol_lines = []
    if new:
        byclass = {}
        for f in new:
            byclass.setdefault(f["class"], f)
        for cls, f in sorted(byclass.items()):
            rp = write_replay(pid, hashlib.sha1(cls.encode()).hexdigest()[:10],
                              {"property": pid, "kind": "failing-input", "class": cls, "seed": seed, "tier": tier, "case": f,
                               "replay": "./check %s --replay <this file>" % pid})
            viol_lines.append("VIOLATION property=%s replay=%s" % (pid, os.path.relpath(rp, ROOT)))
        exit_code = 1
    elif broken or mism or cerrs or corr_unavailable or bad:
        # a proof obligation or the correspondence no longer checks: search harder for a failing input
        what = []
        if broken:
            what.append({"proof_obligations_not_checked": broken, "coq_log_tail": make_log[-1500:]})
        if mism:
            what.append({"correspondence_mismatches": [{"id": i, "input": run["cases"].get(str(i))} for i in mism[:20]]})
        if cerrs:
            what.append({"case_evaluation_errors": [e[-600:] for e in cerrs[:3]]})
        if corr_unavailable:
            what.append({"correspondence": "model did not compile; cases could not be evaluated"})
        if bad:
            what.append({"forbidden_constructs": bad})
        found = None
        if tier == "quick" and spec.get("search", True):
            run2, _, _, _, fails2, _, _ = explore("thorough", seed + 1)
            if run2:
                new2 = [f for f in fails2 if f["class"] not in known]
                if new2:
                    found = new2[0]
        if found:
            rp = write_replay(pid, hashlib.sha1(found["class"].encode()).hexdigest()[:10],
                              {"property": pid, "kind": "failing-input", "class": found["class"], "seed": seed + 1, "tier": "thorough",
                               "case": found, "broken": what})
            viol_lines.append("VIOLATION property=%s replay=%s" % (pid, os.path.relpath(rp, ROOT)))
        else:
            rp = write_replay(pid, "unchecked", {"property": pid, "kind": "no-failing-input-found", "seed": seed, "tier": tier,
                                                   "no_longer_checks": what})
            viol_lines.append("VIOLATION property=%s replay=%s no-failing-input-found" % (pid, os.path.relpath(rp, ROOT)))
        exit_code = 1
    for cls in hit:
        print("KNOWN-FINDING: property=%s %s -- %s" % (pid, cls, known[cls]))
    for l in viol_lines:
        print(l)
    discharged = [n for n in names if n in assum.get("axioms", {})] if not broken else []
    axioms = sorted(set(a for n in assum.get("axioms", {}) for a in assum["axioms"][n]))
    ev = {
        "property_id": pid, "tier": tier, "seed": seed, "level": spec.get("level", "proof"),
        "coverage": {
            "obligations": len(names), "discharged": len(discharged),
            "checker_cmd": "make -C coq (coqc 8.16.1, full .vo) ; coqc Print Assumptions over Props/%s.v" % pid,
            "trusted_base": spec.get("trusted", []) + ["axioms reported by Print Assumptions: " + (", ".join(axioms) if axioms else "none (Closed under the global context)")],
            "theorems": names,
            "evaluations": run.get("evaluations", 0), "distinct_nontrivial": run.get("distinct_nontrivial", 0),
            "rule": run.get("rule", ""), "samples": (run.get("samples") or [])[:12],
            "distribution": run.get("distribution", {}),
            "correspondence_mismatches": len(mism), "oracle_failures": len(fails),
            "cases_dropped_out_of_fuel": len(dropped),
            "known_findings_reproduced": hit,
            "explanation": spec.get("explanation", ""),
            "notes": notes + run.get("notes", []),
        },
        "assumptions": spec.get("assumptions", []),
        "wall_s": round(time.time() - t0, 2),
        "violations": len(viol_lines),
    }
    write_evidence(pid, ev)
    print("%s: tier=%s seed=%d theorems=%d/%d cases=%d mismatches=%d oracle_failures=%d (known classes: %d) wall=%.1fs -> %s" % (
        pid, tier, seed, len(discharged), len(names), run.get("evaluations", 0), len(mism), len(fails), len(hit), time.time() - t0,
        "OK" if exit_code == 0 else "VIOLATION"))
    return exit_code
