#!/bin/sh
# try_mutant.sh <seeded name> <Cxx> [tier]: apply seeded/<name>/patch.diff to /repo, run the check, undo.
# The evidence file of the property is put back afterwards: committed evidence comes from clean-tree runs only.
name=$1; pid=$2; tier=${3:-quick}
cd /verif
git -C /repo diff --quiet || { echo "/repo is dirty"; exit 2; }
cp evidence/$pid.json /tmp/evidence_$pid.keep 2>/dev/null
git -C /repo apply /verif/seeded/$name/patch.diff || exit 2
./check $pid --tier $tier > /verif/work/mutant_$name.log 2>&1; rc=$?
git -C /repo checkout -- .
[ -f /tmp/evidence_$pid.keep ] && mv /tmp/evidence_$pid.keep evidence/$pid.json
echo "== $name vs $pid: exit=$rc"; grep -E "VIOLATION|KNOWN-FINDING|ERROR|-> " /verif/work/mutant_$name.log | head -8
