package main

// Translation of the arithmetic kernels of engine/number.go into Gallina.
//
// Supported subset (anything else aborts the translation loudly):
//   functions over Integer / Float / Number / bool returning T or (T, error);
//   statements: return, if/else, tagless switch, tag switch on an integer,
//   type switch over Number, `v, ok := x.(Integer)`, :=, =, op=, var decls,
//   `v, err := f(..); if err != nil { return _, err }`, `v, _ := f(..)`,
//   `for { .. break .. }` (becomes a Fixpoint on fuel);
//   expressions: + - * / % & | ^ << >> unary - ^ !, comparisons, && ||,
//   conversions between Integer/int64/Float/float64, math.Floor/Ceil/Trunc/
//   Round/Abs/IsInf/IsNaN, calls of other translated functions.
// Go semantics given: two's-complement wrap for + - * and unary -, truncated /
// and % (panic on a zero divisor), shift panics on negative counts, float ops
// are IEEE binary64 (Flocq), float->int conversion outside int64 = ConvUB.

import (
	"fmt"
	"go/ast"
	"go/constant"
	"go/token"
	"go/types"
	"math"
	"sort"
	"strings"
)

type kind int

const (
	kInt kind = iota
	kFlt
	kNum
	kBool
	kErr
	kOther
)

func kindOf(t types.Type) kind {
	if t == nil {
		return kOther
	}
	if n, ok := t.(*types.Named); ok {
		switch n.Obj().Name() {
		case "Number":
			return kNum
		case "error":
			return kErr
		}
	}
	switch u := t.Underlying().(type) {
	case *types.Basic:
		switch {
		case u.Info()&types.IsInteger != 0:
			return kInt
		case u.Info()&types.IsFloat != 0:
			return kFlt
		case u.Info()&types.IsBoolean != 0:
			return kBool
		}
	case *types.Interface:
		if t.String() == "error" {
			return kErr
		}
	}
	return kOther
}

func coqType(k kind) string {
	switch k {
	case kInt:
		return "Z"
	case kFlt:
		return "f64"
	case kNum:
		return "num"
	case kBool:
		return "bool"
	}
	return "UNSUPPORTED_TYPE"
}

type arithTr struct {
	fset  *token.FileSet
	info  *types.Info
	funcs map[string]*ast.FuncDecl
	skip  map[string]bool // external: become Section variables
	// single-result functions whose body contains an operation that can fail
	// (shift, / or % on integers, float->int conversion); modelled monadically
	failable map[string]bool
	out   strings.Builder
	// per function
	fn      *ast.FuncDecl
	loops   []string // emitted loop fixpoints for the current function
	loopCtx *loopCtx
	tmp     int
	used    map[string]bool // translated functions used by current fn
}

type loopCtx struct {
	name  string
	state []string
	after []ast.Stmt
	outer *loopCtx
}

func (t *arithTr) failf(n ast.Node, f string, a ...interface{}) {
	panic(fmt.Sprintf("go2coq: %s: unsupported: %s", t.fset.Position(n.Pos()), fmt.Sprintf(f, a...)))
}

func zlit(v int64) string {
	if v < 0 {
		return fmt.Sprintf("(%d)", v)
	}
	return fmt.Sprintf("%d", v)
}

func flit(f float64) string {
	return fmt.Sprintf("(of_bits %d)", math.Float64bits(f))
}

func ident(name string) string {
	switch name {
	case "mod", "max", "min", "abs", "exp", "log", "pos", "fun", "end", "in", "at", "as", "div", "xor", "sign", "rem", "neg", "add", "sub", "mul", "round", "floor", "ceiling", "truncate", "sin", "cos", "tan", "sqrt", "power":
		return "go_" + name
	}
	return name
}

// ---- expressions ---------------------------------------------------------

// binds collects monadic bindings "bind (op) (fun x =>" needed before a term.
type binds []string

func (b binds) wrap(body string) string {
	s := body
	for i := len(b) - 1; i >= 0; i-- {
		s = b[i] + " " + s + ")"
	}
	return s
}

func (t *arithTr) fresh() string {
	t.tmp++
	return fmt.Sprintf("t%d_", t.tmp)
}

func (t *arithTr) constExpr(e ast.Expr) (string, bool) {
	tv, ok := t.info.Types[e]
	if !ok || tv.Value == nil {
		return "", false
	}
	switch kindOf(tv.Type) {
	case kInt:
		v, exact := constant.Int64Val(constant.ToInt(tv.Value))
		if !exact {
			t.failf(e, "integer constant out of range")
		}
		return zlit(v), true
	case kFlt:
		f, _ := constant.Float64Val(tv.Value)
		return flit(f), true
	case kBool:
		if constant.BoolVal(tv.Value) {
			return "true", true
		}
		return "false", true
	}
	return "", false
}

func (t *arithTr) expr(e ast.Expr, b *binds) string {
	if id, ok := e.(*ast.Ident); ok && strings.HasPrefix(id.Name, "exceptionalValue") {
		return "(EExc " + strings.TrimPrefix(id.Name, "exceptionalValue") + ")"
	}
	if s, ok := t.constExpr(e); ok {
		return s
	}
	switch e := e.(type) {
	case *ast.ParenExpr:
		return t.expr(e.X, b)
	case *ast.Ident:
		switch e.Name {
		case "maxInt":
			return "maxI"
		case "minInt":
			return "minI"
		case "nil":
			t.failf(e, "nil in expression position")
		}
		if strings.HasPrefix(e.Name, "exceptionalValue") {
			return "(EExc " + strings.TrimPrefix(e.Name, "exceptionalValue") + ")"
		}
		return ident(e.Name)
	case *ast.UnaryExpr:
		x := t.expr(e.X, b)
		k := kindOf(t.info.TypeOf(e.X))
		switch e.Op {
		case token.SUB:
			if k == kInt {
				return "(neg64 " + x + ")"
			}
			if k == kFlt {
				return "(fneg " + x + ")"
			}
		case token.XOR:
			if k == kInt {
				return "(not64 " + x + ")"
			}
		case token.NOT:
			return "(negb " + x + ")"
		case token.ADD:
			return x
		}
		t.failf(e, "unary %s on kind %d", e.Op, k)
	case *ast.BinaryExpr:
		return t.binary(e, b)
	case *ast.CallExpr:
		return t.call(e, b)
	}
	t.failf(e, "expression %T", e)
	return ""
}

func (t *arithTr) binary(e *ast.BinaryExpr, b *binds) string {
	if e.Op == token.LAND || e.Op == token.LOR {
		x := t.expr(e.X, b)
		var rb binds
		y := t.expr(e.Y, &rb)
		if len(rb) > 0 {
			t.failf(e, "operation that can fail on the right of %s", e.Op)
		}
		if e.Op == token.LAND {
			return "(andb " + x + " " + y + ")"
		}
		return "(orb " + x + " " + y + ")"
	}
	x := t.expr(e.X, b)
	y := t.expr(e.Y, b)
	k := kindOf(t.info.TypeOf(e.X))
	if k == kOther || e.Op == token.SHL || e.Op == token.SHR {
		// shifts: the kind is the left operand's
	}
	type key struct {
		k  kind
		op token.Token
	}
	pure := map[key]string{
		{kInt, token.ADD}: "add64", {kInt, token.SUB}: "sub64", {kInt, token.MUL}: "mul64",
		{kInt, token.AND}: "and64", {kInt, token.OR}: "or64", {kInt, token.XOR}: "xor64",
		{kInt, token.EQL}: "Z.eqb", {kInt, token.LSS}: "Z.ltb", {kInt, token.LEQ}: "Z.leb",
		{kInt, token.GTR}: "Z.gtb", {kInt, token.GEQ}: "Z.geb",
		{kFlt, token.ADD}: "fadd", {kFlt, token.SUB}: "fsub", {kFlt, token.MUL}: "fmul", {kFlt, token.QUO}: "fdiv",
		{kFlt, token.EQL}: "feq", {kFlt, token.NEQ}: "fne", {kFlt, token.LSS}: "flt", {kFlt, token.LEQ}: "fle",
		{kFlt, token.GTR}: "fgt", {kFlt, token.GEQ}: "fge",
		{kBool, token.EQL}: "Bool.eqb", {kBool, token.NEQ}: "xorb",
	}
	if f, ok := pure[key{k, e.Op}]; ok {
		return "(" + f + " " + x + " " + y + ")"
	}
	if k == kInt && e.Op == token.NEQ {
		return "(negb (Z.eqb " + x + " " + y + "))"
	}
	failing := map[token.Token]string{token.QUO: "quot64", token.REM: "rem64", token.SHL: "shl64", token.SHR: "shr64"}
	if f, ok := failing[e.Op]; ok && k == kInt {
		v := t.fresh()
		*b = append(*b, fmt.Sprintf("bind (%s %s %s) (fun %s =>", f, x, y, v))
		return v
	}
	t.failf(e, "binary %s on kind %d", e.Op, k)
	return ""
}

func (t *arithTr) coerce(s string, from, to kind, n ast.Node) string {
	if from == to {
		return s
	}
	if to == kNum && from == kInt {
		return "(NInt " + s + ")"
	}
	if to == kNum && from == kFlt {
		return "(NFlt " + s + ")"
	}
	t.failf(n, "coercion %d -> %d", from, to)
	return ""
}

func (t *arithTr) call(e *ast.CallExpr, b *binds) string {
	// conversion?
	if tv, ok := t.info.Types[e.Fun]; ok && tv.IsType() {
		to := kindOf(tv.Type)
		from := kindOf(t.info.TypeOf(e.Args[0]))
		x := t.expr(e.Args[0], b)
		switch {
		case from == to:
			return x
		case from == kInt && to == kFlt:
			return "(of_int " + x + ")"
		case from == kFlt && to == kInt:
			v := t.fresh()
			*b = append(*b, fmt.Sprintf("bind (to_int %s) (fun %s =>", x, v))
			return v
		}
		t.failf(e, "conversion %d -> %d", from, to)
	}
	if sel, ok := e.Fun.(*ast.SelectorExpr); ok {
		if pkg, ok := sel.X.(*ast.Ident); ok && pkg.Name == "math" {
			m := map[string]string{"Floor": "ffloor", "Ceil": "fceil", "Trunc": "ftrunc", "Round": "fround", "Abs": "fabs", "IsNaN": "fis_nan"}
			if f, ok := m[sel.Sel.Name]; ok {
				return "(" + f + " " + t.expr(e.Args[0], b) + ")"
			}
			if sel.Sel.Name == "IsInf" {
				if c, ok := t.constExpr(e.Args[1]); ok && c == "0" {
					return "(fis_inf " + t.expr(e.Args[0], b) + ")"
				}
			}
		}
		t.failf(e, "call of %s", types.ExprString(e.Fun))
	}
	id, ok := e.Fun.(*ast.Ident)
	if !ok {
		t.failf(e, "call of %s", types.ExprString(e.Fun))
	}
	if id.Name == "typeError" {
		vt := strings.TrimPrefix(e.Args[0].(*ast.Ident).Name, "validType")
		c := t.coerce(t.expr(e.Args[1], b), kindOf(t.info.TypeOf(e.Args[1])), kNum, e)
		return "(EType VT" + vt + " " + c + ")"
	}
	fd, known := t.funcs[id.Name]
	if !known {
		t.failf(e, "call of unknown function %s", id.Name)
	}
	t.used[id.Name] = true
	sig := t.info.Defs[fd.Name].Type().(*types.Signature)
	s := "(" + t.fname(id.Name)
	for i, a := range e.Args {
		s += " " + t.coerce(t.expr(a, b), kindOf(t.info.TypeOf(a)), kindOf(sig.Params().At(i).Type()), a)
	}
	s += ")"
	if t.failable[id.Name] && sig.Results().Len() == 1 {
		v := t.fresh()
		*b = append(*b, fmt.Sprintf("bind %s (fun %s =>", s, v))
		return v
	}
	return s
}

// computeFailable finds the single-result functions that need a monadic model.
func (t *arithTr) computeFailable() {
	t.failable = map[string]bool{}
	direct := func(fd *ast.FuncDecl) bool {
		found := false
		ast.Inspect(fd.Body, func(n ast.Node) bool {
			switch n := n.(type) {
			case *ast.BinaryExpr:
				if kindOf(t.info.TypeOf(n.X)) == kInt {
					switch n.Op {
					case token.QUO, token.REM, token.SHL, token.SHR:
						if _, isConst := t.constExpr(n); !isConst {
							found = true
						}
					}
				}
			case *ast.AssignStmt:
				switch n.Tok {
				case token.SHL_ASSIGN, token.SHR_ASSIGN, token.QUO_ASSIGN, token.REM_ASSIGN:
					found = true
				}
			case *ast.CallExpr:
				if tv, ok := t.info.Types[n.Fun]; ok && tv.IsType() && len(n.Args) == 1 {
					if kindOf(tv.Type) == kInt && kindOf(t.info.TypeOf(n.Args[0])) == kFlt {
						if _, isConst := t.constExpr(n); !isConst {
							found = true
						}
					}
				}
			}
			return true
		})
		return found
	}
	for n, fd := range t.funcs {
		if t.skip[n] || fd.Body == nil {
			continue
		}
		if direct(fd) {
			t.failable[n] = true
		}
	}
	for changed := true; changed; {
		changed = false
		for n, fd := range t.funcs {
			if t.failable[n] || t.skip[n] || fd.Body == nil {
				continue
			}
			ast.Inspect(fd.Body, func(x ast.Node) bool {
				if c, ok := x.(*ast.CallExpr); ok {
					if id, ok := c.Fun.(*ast.Ident); ok && t.failable[id.Name] {
						if sg, ok := t.info.Defs[t.funcs[id.Name].Name].Type().(*types.Signature); ok && sg.Results().Len() == 1 {
							t.failable[n] = true
							changed = true
						}
					}
				}
				return true
			})
		}
	}
}

func (t *arithTr) fname(n string) string {
	if t.skip[n] {
		return "ext_" + n
	}
	return ident(n)
}

// result description of a function
func (t *arithTr) sigOf(name string) (k kind, monadic bool) {
	fd := t.funcs[name]
	sig := t.info.Defs[fd.Name].Type().(*types.Signature)
	k = kindOf(sig.Results().At(0).Type())
	monadic = sig.Results().Len() == 2 || t.failable[name]
	return
}

// ---- statements ----------------------------------------------------------

func terminates(s ast.Stmt) bool {
	switch s := s.(type) {
	case *ast.ReturnStmt:
		return true
	case *ast.BranchStmt:
		return s.Tok == token.BREAK
	case *ast.BlockStmt:
		return len(s.List) > 0 && terminates(s.List[len(s.List)-1])
	case *ast.IfStmt:
		return s.Else != nil && terminates(s.Body) && terminates(s.Else)
	case *ast.SwitchStmt:
		hasDefault := false
		for _, c := range s.Body.List {
			cc := c.(*ast.CaseClause)
			if cc.List == nil {
				hasDefault = true
			}
			if len(cc.Body) == 0 || !terminates(cc.Body[len(cc.Body)-1]) {
				return false
			}
		}
		return hasDefault
	case *ast.TypeSwitchStmt:
		seen := map[string]bool{}
		for _, c := range s.Body.List {
			cc := c.(*ast.CaseClause)
			if len(cc.Body) == 0 || !terminates(cc.Body[len(cc.Body)-1]) {
				return false
			}
			if cc.List == nil {
				seen["default"] = true
			}
			for _, e := range cc.List {
				seen[types.ExprString(e)] = true
			}
		}
		return seen["default"] || (seen["Integer"] && seen["Float"])
	}
	return false
}

func (t *arithTr) retKind() (kind, bool) { return t.sigOf(t.fn.Name.Name) }

func (t *arithTr) ret(s *ast.ReturnStmt) string {
	rk, monadic := t.retKind()
	var b binds
	if !monadic {
		e := t.expr(s.Results[0], &b)
		if len(b) > 0 {
			t.failf(s, "operation that can fail in a function without an error result")
		}
		return t.coerce(e, kindOf(t.info.TypeOf(s.Results[0])), rk, s)
	}
	if sig := t.info.Defs[t.fn.Name].Type().(*types.Signature); sig.Results().Len() == 1 {
		e := t.expr(s.Results[0], &b)
		return b.wrap("(Ok " + t.coerce(e, kindOf(t.info.TypeOf(s.Results[0])), rk, s) + ")")
	}
	if len(s.Results) == 1 { // return f(...)
		c, ok := s.Results[0].(*ast.CallExpr)
		if !ok {
			t.failf(s, "single-value return in a two-result function")
		}
		id := c.Fun.(*ast.Ident)
		ck, cm := t.sigOf(id.Name)
		if !cm {
			t.failf(s, "return of a non-monadic call")
		}
		call := t.call(c, &b)
		if ck != rk {
			ctor := map[kind]string{kInt: "NInt", kFlt: "NFlt"}[ck]
			call = "(rmap " + ctor + " " + call + ")"
		}
		return b.wrap(call)
	}
	// return v, e
	if id, ok := s.Results[1].(*ast.Ident); ok && id.Name == "nil" {
		v := t.expr(s.Results[0], &b)
		v = t.coerce(v, kindOf(t.info.TypeOf(s.Results[0])), rk, s)
		return b.wrap("(Ok " + v + ")")
	}
	// error return: first value must be a zero value (0 / nil)
	if z, ok := t.constExpr(s.Results[0]); ok {
		if z != "0" && z != "(of_bits 0)" {
			t.failf(s, "non-zero value beside an error")
		}
	} else if id, ok := s.Results[0].(*ast.Ident); !ok || id.Name != "nil" {
		t.failf(s, "non-zero value beside an error")
	}
	if id, ok := s.Results[1].(*ast.Ident); ok && id.Name == "err" {
		t.failf(s, "return of a stored error outside the bind pattern")
	}
	ev := t.expr(s.Results[1], &b)
	return b.wrap("(Err " + ev + ")")
}

func isErrCheck(s ast.Stmt) bool {
	i, ok := s.(*ast.IfStmt)
	if !ok || i.Init != nil || i.Else != nil || len(i.Body.List) != 1 {
		return false
	}
	c, ok := i.Cond.(*ast.BinaryExpr)
	if !ok || c.Op != token.NEQ {
		return false
	}
	x, ok1 := c.X.(*ast.Ident)
	y, ok2 := c.Y.(*ast.Ident)
	if !ok1 || !ok2 || x.Name != "err" || y.Name != "nil" {
		return false
	}
	r, ok := i.Body.List[0].(*ast.ReturnStmt)
	if !ok || len(r.Results) != 2 {
		return false
	}
	e, ok := r.Results[1].(*ast.Ident)
	return ok && e.Name == "err"
}

// stmts translates a statement list followed by the continuation `rest`
// (a thunk producing the translation of what follows, or nil if nothing may follow).
func (t *arithTr) stmts(list []ast.Stmt, rest func() string) string {
	if len(list) == 0 {
		if rest == nil {
			panic("go2coq: control reaches the end of a function body")
		}
		return rest()
	}
	s := list[0]
	tail := func() string { return t.stmts(list[1:], rest) }
	switch s := s.(type) {
	case *ast.ReturnStmt:
		return t.ret(s)
	case *ast.BlockStmt:
		return t.stmts(append(append([]ast.Stmt{}, s.List...), list[1:]...), rest)
	case *ast.BranchStmt:
		if s.Tok == token.BREAK && t.loopCtx != nil {
			lc := t.loopCtx
			t.loopCtx = lc.outer
			r := t.stmts(lc.after, nil)
			t.loopCtx = lc
			return r
		}
		t.failf(s, "branch statement %s", s.Tok)
	case *ast.IfStmt:
		if s.Init != nil {
			t.failf(s, "if with init")
		}
		var b binds
		c := t.expr(s.Cond, &b)
		thenS := t.stmts(s.Body.List, tail)
		var elseS string
		if s.Else != nil {
			elseS = t.stmts([]ast.Stmt{s.Else}, tail)
		} else {
			elseS = tail()
		}
		return b.wrap(fmt.Sprintf("(if %s then %s else %s)", c, thenS, elseS))
	case *ast.SwitchStmt:
		return t.switchStmt(s, tail)
	case *ast.TypeSwitchStmt:
		return t.typeSwitch(s, tail)
	case *ast.DeclStmt:
		gd := s.Decl.(*ast.GenDecl)
		pre := ""
		for _, sp := range gd.Specs {
			vs := sp.(*ast.ValueSpec)
			for i, n := range vs.Names {
				k := kindOf(t.info.TypeOf(n))
				if k == kErr {
					continue
				}
				var b binds
				v := map[kind]string{kInt: "0", kFlt: "(of_bits 0)", kBool: "false"}[k]
				if i < len(vs.Values) {
					v = t.expr(vs.Values[i], &b)
				}
				if len(b) > 0 || v == "" {
					t.failf(s, "var declaration")
				}
				pre += fmt.Sprintf("let %s := %s in ", ident(n.Name), v)
			}
		}
		return "(" + pre + tail() + ")"
	case *ast.AssignStmt:
		return t.assign(s, list, rest)
	case *ast.IncDecStmt:
		id, ok := s.X.(*ast.Ident)
		if !ok || kindOf(t.info.TypeOf(s.X)) != kInt {
			t.failf(s, "inc/dec of a non-integer")
		}
		op := "add64"
		if s.Tok == token.DEC {
			op = "sub64"
		}
		return fmt.Sprintf("(let %s := %s %s 1 in %s)", ident(id.Name), op, ident(id.Name), tail())
	case *ast.ForStmt:
		return t.forStmt(s, list[1:], rest)
	}
	t.failf(s, "statement %T", s)
	return ""
}

func (t *arithTr) assign(s *ast.AssignStmt, list []ast.Stmt, rest func() string) string {
	tail := func() string { return t.stmts(list[1:], rest) }
	if len(s.Lhs) == 1 && len(s.Rhs) == 1 {
		name := ident(s.Lhs[0].(*ast.Ident).Name)
		var b binds
		var v string
		switch s.Tok {
		case token.DEFINE, token.ASSIGN:
			v = t.expr(s.Rhs[0], &b)
		default: // op=
			opmap := map[token.Token]token.Token{token.SHR_ASSIGN: token.SHR, token.SHL_ASSIGN: token.SHL, token.ADD_ASSIGN: token.ADD, token.SUB_ASSIGN: token.SUB, token.MUL_ASSIGN: token.MUL}
			op, ok := opmap[s.Tok]
			if !ok {
				t.failf(s, "assignment %s", s.Tok)
			}
			be := &ast.BinaryExpr{X: s.Lhs[0], Op: op, Y: s.Rhs[0], OpPos: s.TokPos}
			v = t.binary(be, &b)
		}
		return b.wrap(fmt.Sprintf("(let %s := %s in %s)", name, v, tail()))
	}
	if len(s.Lhs) == 2 && len(s.Rhs) == 1 {
		// v, ok := x.(Integer)
		if ta, ok := s.Rhs[0].(*ast.TypeAssertExpr); ok {
			v := ident(s.Lhs[0].(*ast.Ident).Name)
			okn := ident(s.Lhs[1].(*ast.Ident).Name)
			x := ident(ta.X.(*ast.Ident).Name)
			ty := types.ExprString(ta.Type)
			body := tail()
			switch ty {
			case "Integer":
				return fmt.Sprintf("(match %s with NInt %s => let %s := true in %s | NFlt _ => let %s := 0 in let %s := false in %s end)", x, v, okn, body, v, okn, body)
			case "Float":
				return fmt.Sprintf("(match %s with NFlt %s => let %s := true in %s | NInt _ => let %s := (of_bits 0) in let %s := false in %s end)", x, v, okn, body, v, okn, body)
			}
			t.failf(s, "type assertion to %s", ty)
		}
		c, ok := s.Rhs[0].(*ast.CallExpr)
		if !ok {
			t.failf(s, "two-value assignment")
		}
		v := ident(s.Lhs[0].(*ast.Ident).Name)
		second := s.Lhs[1].(*ast.Ident).Name
		var b binds
		call := t.call(c, &b)
		id := c.Fun.(*ast.Ident)
		ck, cm := t.sigOf(id.Name)
		if !cm {
			t.failf(s, "two-value assignment from a one-result function")
		}
		if second == "_" {
			zero := map[kind]string{kInt: "0", kFlt: "(of_bits 0)"}[ck]
			return b.wrap(fmt.Sprintf("(let %s := val_or %s %s in %s)", v, zero, call, tail()))
		}
		if second == "err" && len(list) > 1 && isErrCheck(list[1]) {
			body := t.stmts(list[2:], rest)
			return b.wrap(fmt.Sprintf("(bind %s (fun %s => %s))", call, v, body))
		}
		t.failf(s, "error value stored without the immediate `if err != nil { return _, err }`")
	}
	t.failf(s, "assignment shape")
	return ""
}

func (t *arithTr) switchStmt(s *ast.SwitchStmt, tail func() string) string {
	if s.Init != nil {
		t.failf(s, "switch with init")
	}
	var clauses []*ast.CaseClause
	var def *ast.CaseClause
	for _, c := range s.Body.List {
		cc := c.(*ast.CaseClause)
		if cc.List == nil {
			def = cc
		} else {
			clauses = append(clauses, cc)
		}
	}
	var tagS string
	var outer binds
	if s.Tag != nil {
		if kindOf(t.info.TypeOf(s.Tag)) != kInt {
			t.failf(s, "switch tag of non-integer kind")
		}
		tagS = t.expr(s.Tag, &outer)
	}
	var build func(i int) string
	build = func(i int) string {
		if i == len(clauses) {
			if def != nil {
				return t.stmts(def.Body, tail)
			}
			return tail()
		}
		cc := clauses[i]
		var b binds
		var conds []string
		for _, e := range cc.List {
			if s.Tag != nil {
				conds = append(conds, "(Z.eqb "+tagS+" "+t.expr(e, &b)+")")
			} else {
				conds = append(conds, t.expr(e, &b))
			}
		}
		c := conds[0]
		for _, d := range conds[1:] {
			c = "(orb " + c + " " + d + ")"
		}
		for _, st := range cc.Body {
			if br, ok := st.(*ast.BranchStmt); ok && br.Tok == token.FALLTHROUGH {
				t.failf(st, "fallthrough")
			}
		}
		return b.wrap(fmt.Sprintf("(if %s then %s else %s)", c, t.stmts(cc.Body, tail), build(i+1)))
	}
	return outer.wrap(build(0))
}

func (t *arithTr) typeSwitch(s *ast.TypeSwitchStmt, tail func() string) string {
	as, ok := s.Assign.(*ast.AssignStmt)
	if !ok {
		t.failf(s, "type switch without binding")
	}
	bound := ident(as.Lhs[0].(*ast.Ident).Name)
	subj := ident(as.Rhs[0].(*ast.TypeAssertExpr).X.(*ast.Ident).Name)
	var ci, cf, def *ast.CaseClause
	for _, c := range s.Body.List {
		cc := c.(*ast.CaseClause)
		if cc.List == nil {
			def = cc
			continue
		}
		if len(cc.List) != 1 {
			t.failf(cc, "multi-type case")
		}
		switch types.ExprString(cc.List[0]) {
		case "Integer":
			ci = cc
		case "Float":
			cf = cc
		default:
			t.failf(cc, "case type %s", types.ExprString(cc.List[0]))
		}
	}
	branch := func(cc *ast.CaseClause, ctor string) string {
		if cc != nil {
			return fmt.Sprintf("%s %s => %s", ctor, bound, t.stmts(cc.Body, tail))
		}
		tmpv := t.fresh()
		if def != nil {
			return fmt.Sprintf("%s %s => let %s := %s %s in %s", ctor, tmpv, bound, ctor, tmpv, t.stmts(def.Body, tail))
		}
		return fmt.Sprintf("%s %s => %s", ctor, tmpv, tail())
	}
	return fmt.Sprintf("(match %s with %s | %s end)", subj, branch(ci, "NInt"), branch(cf, "NFlt"))
}

// assignedIn returns the names assigned (not defined) within the statements.
func assignedIn(list []ast.Stmt) map[string]bool {
	m := map[string]bool{}
	for _, s := range list {
		ast.Inspect(s, func(n ast.Node) bool {
			if a, ok := n.(*ast.IncDecStmt); ok {
				if id, ok := a.X.(*ast.Ident); ok {
					m[id.Name] = true
				}
			}
			if a, ok := n.(*ast.AssignStmt); ok && a.Tok != token.DEFINE {
				for _, l := range a.Lhs {
					if id, ok := l.(*ast.Ident); ok && id.Name != "_" && id.Name != "err" {
						m[id.Name] = true
					}
				}
			}
			return true
		})
	}
	return m
}

func (t *arithTr) forStmt(s *ast.ForStmt, after []ast.Stmt, rest func() string) string {
	if s.Init != nil || s.Cond != nil || s.Post != nil {
		t.failf(s, "for with init/cond/post")
	}
	if rest != nil {
		t.failf(s, "loop in a nested position")
	}
	am := assignedIn(s.Body.List)
	var state []string
	for n := range am {
		state = append(state, n)
	}
	sort.Strings(state)
	name := fmt.Sprintf("%s_loop%d", ident(t.fn.Name.Name), len(t.loops)+1)
	lc := &loopCtx{name: name, state: state, after: after, outer: t.loopCtx}
	t.loopCtx = lc
	var params, args string
	for _, n := range state {
		var k kind = kInt
		// find the kind from any use
		for id, obj := range t.info.Defs {
			if id.Name == n && obj != nil && id.Pos() >= t.fn.Pos() && id.Pos() <= t.fn.End() {
				k = kindOf(obj.Type())
			}
		}
		params += fmt.Sprintf(" (%s : %s)", ident(n), coqType(k))
		args += " " + ident(n)
	}
	body := t.stmts(s.Body.List, func() string { return "(" + name + " fuel_" + args + ")" })
	t.loopCtx = lc.outer
	rk, _ := t.retKind()
	fix := fmt.Sprintf("Fixpoint %s (fuel_ : nat)%s {struct fuel_} : resE %s :=\n  match fuel_ with O => OutOfFuel | S fuel_ =>\n  %s\n  end.\n", name, params, coqType(rk), body)
	t.loops = append(t.loops, fix)
	return "(" + name + " LOOPFUEL" + args + ")"
}

// ---- functions -------------------------------------------------------------

func (t *arithTr) function(fd *ast.FuncDecl) (def string, deps []string) {
	t.fn = fd
	t.loops = nil
	t.tmp = 0
	t.used = map[string]bool{}
	sig := t.info.Defs[fd.Name].Type().(*types.Signature)
	var params string
	for i := 0; i < sig.Params().Len(); i++ {
		p := sig.Params().At(i)
		k := kindOf(p.Type())
		if k == kOther || k == kErr {
			t.failf(fd, "parameter type %s", p.Type())
		}
		params += fmt.Sprintf(" (%s : %s)", ident(p.Name()), coqType(k))
	}
	rk, monadic := t.sigOf(fd.Name.Name)
	if rk == kOther || rk == kErr {
		t.failf(fd, "result type")
	}
	rt := coqType(rk)
	if monadic {
		rt = "resE " + rt
	}
	body := t.stmts(fd.Body.List, nil)
	for _, l := range t.loops {
		def += l
	}
	def += fmt.Sprintf("Definition %s%s : %s :=\n  %s.\n", ident(fd.Name.Name), params, rt, body)
	for n := range t.used {
		deps = append(deps, n)
	}
	sort.Strings(deps)
	return
}

// table translates a map literal `var name = map[Atom]func...{ atomX: f, ...}`.
func (t *arithTr) table(vs *ast.ValueSpec, atoms map[string]string, arity int) string {
	cl := vs.Values[0].(*ast.CompositeLit)
	var rows []string
	for _, el := range cl.Elts {
		kv := el.(*ast.KeyValueExpr)
		an := kv.Key.(*ast.Ident).Name
		text, ok := atoms[an]
		if !ok {
			t.failf(kv, "atom %s has no literal text", an)
		}
		fn := kv.Value.(*ast.Ident).Name
		rows = append(rows, fmt.Sprintf("  (%s, %s)", coqString(text), t.fname(fn)))
	}
	sort.Strings(rows)
	ty := "num -> resE num"
	if arity == 2 {
		ty = "num -> num -> resE num"
	}
	return fmt.Sprintf("Definition %s : list (string * (%s)) := [\n%s\n].\n", vs.Names[0].Name, ty, strings.Join(rows, ";\n"))
}

func coqString(s string) string {
	return "\"" + strings.ReplaceAll(s, "\"", "\"\"") + "\""
}
