package main

// Regeneration of coq/Gen/Scan_gen.v from the convertAssign* functions of
// /repo/solutions.go: for every numeric destination the accepted answer types,
// the range guard (if any) and the Go conversion applied.  Purely syntactic;
// any shape other than
//     switch t := env.Resolve(t).(type) {
//     case engine.Integer|engine.Float:
//         [if t < LO || t > HI { return errConversion }]
//         *d = T(t)
//         return nil
//     default: return errConversion }
// aborts the translation.

import (
	"fmt"
	"go/ast"
	"go/parser"
	"go/token"
	"path/filepath"
	"sort"
	"strings"
)

var scanConsts = map[string]string{
	"math.MinInt8": "(-128)", "math.MaxInt8": "127", "math.MinInt16": "(-32768)", "math.MaxInt16": "32767",
	"math.MinInt32": "(-2147483648)", "math.MaxInt32": "2147483647", "math.MinInt64": "(-9223372036854775808)", "math.MaxInt64": "9223372036854775807",
}

var scanBits = map[string]int{"int": 64, "int8": 8, "int16": 16, "int32": 32, "int64": 64}

func exprText(e ast.Expr) string {
	switch x := e.(type) {
	case *ast.Ident:
		return x.Name
	case *ast.SelectorExpr:
		return exprText(x.X) + "." + x.Sel.Name
	case *ast.BasicLit:
		return x.Value
	case *ast.UnaryExpr:
		return x.Op.String() + exprText(x.X)
	}
	return fmt.Sprintf("%T", e)
}

func scanBound(e ast.Expr) string {
	t := exprText(e)
	if v, ok := scanConsts[t]; ok {
		return v
	}
	if strings.HasPrefix(t, "-") {
		return "(" + t + ")"
	}
	for _, c := range t {
		if c < '0' || c > '9' {
			fatal("scan: unsupported bound %q", t)
		}
	}
	return t
}

func genScan(repo, outDir string) {
	fset := token.NewFileSet()
	f, err := parser.ParseFile(fset, filepath.Join(repo, "solutions.go"), nil, 0)
	if err != nil {
		fatal("%v", err)
	}
	var defs []string
	var names []string
	for _, d := range f.Decls {
		fd, ok := d.(*ast.FuncDecl)
		if !ok || !strings.HasPrefix(fd.Name.Name, "convertAssign") {
			continue
		}
		dest := strings.ToLower(strings.TrimPrefix(fd.Name.Name, "convertAssign"))
		isInt := scanBits[dest] != 0
		isFlt := dest == "float64" || dest == "float32"
		if !isInt && !isFlt {
			continue // Any, String, Slice: hand-modelled / observed only
		}
		pos := fset.Position(fd.Pos())
		bad := func(what string) { fatal("scan: %s: %s: unsupported shape: %s", pos, fd.Name.Name, what) }
		if len(fd.Body.List) != 1 {
			bad("body is not a single type switch")
		}
		ts, ok := fd.Body.List[0].(*ast.TypeSwitchStmt)
		if !ok {
			bad("body is not a type switch")
		}
		intCase, fltCase := "None", "None"
		for _, c := range ts.Body.List {
			cc := c.(*ast.CaseClause)
			if cc.List == nil {
				if len(cc.Body) != 1 || !strings.Contains(exprText(cc.Body[0].(*ast.ReturnStmt).Results[0]), "errConversion") {
					bad("default does not return errConversion")
				}
				continue
			}
			if len(cc.List) != 1 {
				bad("multi-type case")
			}
			ty := exprText(cc.List[0])
			body := cc.Body
			guard := ""
			if ifs, ok := body[0].(*ast.IfStmt); ok {
				be, ok := ifs.Cond.(*ast.BinaryExpr)
				if !ok || be.Op != token.LOR {
					bad("guard is not a disjunction")
				}
				l, ok1 := be.X.(*ast.BinaryExpr)
				r, ok2 := be.Y.(*ast.BinaryExpr)
				if !ok1 || !ok2 || exprText(l.X) != "t" || exprText(r.X) != "t" || l.Op != token.LSS || r.Op != token.GTR {
					bad("guard is not `t < LO || t > HI`")
				}
				ret, ok := ifs.Body.List[0].(*ast.ReturnStmt)
				if !ok || exprText(ret.Results[0]) != "errConversion" {
					bad("guard does not return errConversion")
				}
				guard = fmt.Sprintf("if (z <? %s) || (%s <? z) then None else ", scanBound(l.Y), scanBound(r.Y))
				body = body[1:]
			}
			if len(body) != 2 {
				bad("case body is not [guard;] assignment; return nil")
			}
			as, ok := body[0].(*ast.AssignStmt)
			if !ok || len(as.Rhs) != 1 {
				bad("no assignment")
			}
			call, ok := as.Rhs[0].(*ast.CallExpr)
			if !ok || len(call.Args) != 1 || exprText(call.Args[0]) != "t" {
				bad("assigned value is not a conversion of t")
			}
			conv := exprText(call.Fun)
			switch {
			case ty == "engine.Integer" && isInt:
				if scanBits[conv] == 0 {
					bad("integer conversion to " + conv)
				}
				intCase = fmt.Sprintf("%sSome (wrap_bits %d z)", guard, scanBits[conv])
			case ty == "engine.Float" && isFlt && guard == "":
				if conv == "float64" {
					fltCase = "Some bits"
				} else {
					fltCase = "Some (narrow32 bits)"
				}
			case ty == "engine.Integer" && isFlt && guard == "":
				intCase = "Some (of_int_bits z)"
			default:
				bad("case " + ty + " for destination " + dest)
			}
		}
		if isInt {
			defs = append(defs, fmt.Sprintf("Definition scan_%s (t : sterm) : option Z :=\n  match t with SInt z => %s | _ => None end.\n", dest, intCase))
		} else {
			defs = append(defs, fmt.Sprintf("Definition scan_%s (t : sterm) : option Z :=   (* result as a bit pattern *)\n  match t with SInt z => %s | SFlt bits => %s | _ => None end.\n", dest, intCase, fltCase))
		}
		names = append(names, dest)
	}
	sort.Strings(names)
	var b strings.Builder
	b.WriteString("(* GENERATED by tools/go2coq from the convertAssign functions of solutions.go -- do not edit. *)\n")
	b.WriteString("From Coq Require Import ZArith Bool.\nFrom PV Require Import Model.Scan.\nOpen Scope Z_scope.\n\n")
	sort.Strings(defs)
	b.WriteString(strings.Join(defs, "\n"))
	fmt.Fprintf(&b, "\n(* translated: %s *)\n", strings.Join(names, " "))
	writeIfChanged(filepath.Join(outDir, "Scan_gen.v"), b.String())
	fmt.Printf("scan: %d conversions translated\n", len(names))
}
