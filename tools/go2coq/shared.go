package main

// shared: a summary of the process-wide state of the engine and root packages.
//
//   - every package-level variable;
//   - every access to one from a function body or initialiser: its kind (read,
//     write, address taken, passed to sync/atomic, lock/unlock call, other method
//     call) and its lock context (inside X.Lock ... Unlock, X.RLock ... RUnlock,
//     package initialisation, none);
//   - functions that nothing outside the tests refers to;
//   - the critical-section structure of NewAtom.
//
// go/types resolves identifiers to package-level objects; the lock context is
// syntactic (statement positions within one function).

import (
	"fmt"
	"go/ast"
	"go/printer"
	"go/token"
	"go/types"
	"io"
	"path/filepath"
	"sort"
	"strings"
)

type sharedAccess struct {
	v, fn, kind, lock string
	pos              token.Pos
}

type lockRegion struct {
	v, mode  string
	from, to token.Pos
}

func pkgLevelVar(p *pkgInfo, id *ast.Ident) (string, bool) {
	obj := p.info.Uses[id]
	if obj == nil {
		obj = p.info.Defs[id]
	}
	v, ok := obj.(*types.Var)
	if !ok || v.IsField() || v.Parent() != p.pkg.Scope() {
		return "", false
	}
	return v.Name(), true
}

// rootVar: the package-level variable at the root of a selector/index expression
func rootVar(p *pkgInfo, e ast.Expr) (string, bool) {
	for {
		switch x := e.(type) {
		case *ast.Ident:
			return pkgLevelVar(p, x)
		case *ast.SelectorExpr:
			e = x.X
		case *ast.IndexExpr:
			e = x.X
		case *ast.ParenExpr:
			e = x.X
		case *ast.StarExpr:
			e = x.X
		default:
			return "", false
		}
	}
}

func lockRegions(p *pkgInfo, body *ast.BlockStmt) []lockRegion {
	var rs []lockRegion
	if body == nil {
		return rs
	}
	type open struct {
		v, mode string
		from    token.Pos
	}
	var opens []open
	deferred := map[string]bool{}
	lockCall := func(e ast.Expr) (string, string, bool) {
		c, ok := e.(*ast.CallExpr)
		if !ok {
			return "", "", false
		}
		sel, ok := c.Fun.(*ast.SelectorExpr)
		if !ok {
			return "", "", false
		}
		switch sel.Sel.Name {
		case "Lock", "Unlock", "RLock", "RUnlock":
			if v, ok := rootVar(p, sel.X); ok {
				return v, sel.Sel.Name, true
			}
		}
		return "", "", false
	}
	ast.Inspect(body, func(n ast.Node) bool {
		switch s := n.(type) {
		case *ast.FuncLit:
			return false
		case *ast.DeferStmt:
			if v, m, ok := lockCall(s.Call); ok && (m == "Unlock" || m == "RUnlock") {
				deferred[v+"/"+m] = true
			}
			return false
		case *ast.ExprStmt:
			if v, m, ok := lockCall(s.X); ok {
				switch m {
				case "Lock":
					opens = append(opens, open{v, "write", s.End()})
				case "RLock":
					opens = append(opens, open{v, "read", s.End()})
				case "Unlock", "RUnlock":
					for i := len(opens) - 1; i >= 0; i-- {
						if opens[i].v == v {
							rs = append(rs, lockRegion{v, opens[i].mode, opens[i].from, s.Pos()})
							opens = append(opens[:i], opens[i+1:]...)
							break
						}
					}
				}
			}
		}
		return true
	})
	for _, o := range opens {
		m := "Unlock"
		if o.mode == "read" {
			m = "RUnlock"
		}
		if deferred[o.v+"/"+m] {
			rs = append(rs, lockRegion{o.v, o.mode, o.from, body.End()})
		}
		// a Lock that is neither released nor deferred opens no region: accesses after it count as unlocked
	}
	return rs
}

func collectAccesses(p *pkgInfo, fn string, body ast.Node, regions []lockRegion, initCtx bool, out *[]sharedAccess) {
	written := map[*ast.Ident]string{}
	// local variables that hold a copy of a package-level slice, map or pointer: writing through the
	// local writes the shared storage (alias -> the occurrence of the package-level variable it was copied from)
	alias := map[types.Object]*ast.Ident{}
	refType := func(e ast.Expr) bool {
		t := p.info.TypeOf(e)
		if t == nil {
			return false
		}
		switch t.Underlying().(type) {
		case *types.Slice, *types.Map, *types.Pointer:
			return true
		}
		return false
	}
	noteAlias := func(lhs, rhs ast.Expr) {
		l, ok := lhs.(*ast.Ident)
		if !ok {
			return
		}
		r := rhs
		for {
			if pe, ok := r.(*ast.ParenExpr); ok {
				r = pe.X
				continue
			}
			if se, ok := r.(*ast.SliceExpr); ok {
				r = se.X
				continue
			}
			break
		}
		rid, ok := r.(*ast.Ident)
		if !ok || !refType(rhs) {
			return
		}
		if _, isPkg := pkgLevelVar(p, rid); !isPkg {
			if src, ok := alias[p.info.ObjectOf(rid)]; ok { // alias of an alias
				if obj := p.info.ObjectOf(l); obj != nil {
					alias[obj] = src
				}
			}
			return
		}
		if obj := p.info.ObjectOf(l); obj != nil {
			if _, isPkgL := pkgLevelVar(p, l); !isPkgL {
				alias[obj] = rid
			}
		}
	}
	ast.Inspect(body, func(n ast.Node) bool {
		switch s := n.(type) {
		case *ast.AssignStmt:
			if len(s.Lhs) == len(s.Rhs) {
				for i := range s.Lhs {
					noteAlias(s.Lhs[i], s.Rhs[i])
				}
			}
		case *ast.ValueSpec:
			if len(s.Names) == len(s.Values) {
				for i := range s.Names {
					noteAlias(s.Names[i], s.Values[i])
				}
			}
		}
		return true
	})
	mark := func(e ast.Expr, kind string) {
		for {
			switch x := e.(type) {
			case *ast.Ident:
				if _, ok := pkgLevelVar(p, x); ok {
					if !(kind == "AAddr" && written[x] == "AAtomic") {
						written[x] = kind
					}
				} else if src, ok := alias[p.info.ObjectOf(x)]; ok && kind == "AWrite" && x != src {
					written[src] = "AWrite"
				}
				return
			case *ast.SelectorExpr:
				e = x.X
			case *ast.IndexExpr:
				e = x.X
			case *ast.ParenExpr:
				e = x.X
			case *ast.StarExpr:
				e = x.X
			case *ast.SliceExpr:
				e = x.X
			default:
				return
			}
		}
	}
	ast.Inspect(body, func(n ast.Node) bool {
		switch s := n.(type) {
		case *ast.AssignStmt:
			if s.Tok != token.DEFINE {
				for _, l := range s.Lhs {
					if id, ok := l.(*ast.Ident); ok {
						if _, isAlias := alias[p.info.ObjectOf(id)]; isAlias {
							continue // the local itself is rebound; the shared storage is not touched
						}
					}
					mark(l, "AWrite")
				}
			}
		case *ast.IncDecStmt:
			mark(s.X, "AWrite")
		case *ast.UnaryExpr:
			if s.Op == token.AND {
				mark(s.X, "AAddr")
			}
		case *ast.SliceExpr:
			// slicing an array yields a slice that aliases the array's storage: as good as taking its address
			if t := p.info.TypeOf(s.X); t != nil {
				if _, isArr := t.Underlying().(*types.Array); isArr {
					mark(s.X, "AAddr")
				}
			}
		case *ast.CallExpr:
			if sel, ok := s.Fun.(*ast.SelectorExpr); ok {
				if id, ok := sel.X.(*ast.Ident); ok {
					if pn, ok := p.info.Uses[id].(*types.PkgName); ok && pn.Imported().Path() == "sync/atomic" {
						for _, a := range s.Args {
							if u, ok := a.(*ast.UnaryExpr); ok && u.Op == token.AND {
								mark(u.X, "AAtomic")
							}
						}
					}
				}
				switch sel.Sel.Name {
				case "Lock", "Unlock", "RLock", "RUnlock":
					mark(sel.X, "ALockOp")
				default:
					if _, isMethod := p.info.Uses[sel.Sel].(*types.Func); isMethod {
						if _, ok := rootVar(p, sel.X); ok {
							if written[rootIdent(sel.X)] == "" {
								mark(sel.X, "ACall")
							}
						}
					}
				}
			}
			if id, ok := s.Fun.(*ast.Ident); ok && id.Name == "delete" && len(s.Args) > 0 {
				mark(s.Args[0], "AWrite")
			}
			// copy(dst, ...) writes the elements of dst; append(v[i:j], ...) writes into the backing array of v
			if id, ok := s.Fun.(*ast.Ident); ok && len(s.Args) > 0 {
				if _, builtin := p.info.Uses[id].(*types.Builtin); builtin {
					if sl, isSlice := s.Args[0].(*ast.SliceExpr); id.Name == "copy" || (id.Name == "append" && isSlice) {
						if isSlice {
							mark(sl.X, "AWrite")
						} else {
							mark(s.Args[0], "AWrite")
						}
					}
				}
			}
		}
		return true
	})
	ast.Inspect(body, func(n ast.Node) bool {
		id, ok := n.(*ast.Ident)
		if !ok {
			return true
		}
		v, ok := pkgLevelVar(p, id)
		if !ok || p.info.Defs[id] != nil {
			return true
		}
		kind := written[id]
		if kind == "" {
			kind = "ARead"
		}
		// sync/atomic marks come last in source order of Inspect; an & inside atomic.X(&v) was first marked AAddr
		lock := "LNone"
		if initCtx {
			lock = "LInit"
		}
		for _, r := range regions {
			if r.v == v && id.Pos() >= r.from && id.Pos() <= r.to {
				if r.mode == "write" {
					lock = "LWrite"
				} else if lock != "LWrite" {
					lock = "LRead"
				}
			}
		}
		*out = append(*out, sharedAccess{v, fn, kind, lock, id.Pos()})
		return true
	})
}

func rootIdent(e ast.Expr) *ast.Ident {
	for {
		switch x := e.(type) {
		case *ast.Ident:
			return x
		case *ast.SelectorExpr:
			e = x.X
		case *ast.IndexExpr:
			e = x.X
		case *ast.ParenExpr:
			e = x.X
		case *ast.StarExpr:
			e = x.X
		default:
			return nil
		}
	}
}

// internRegions: the critical sections of NewAtom, in order, with what each does to the table.
func internRegions(p *pkgInfo) []string {
	var out []string
	for _, f := range p.files {
		for _, d := range f.Decls {
			fd, ok := d.(*ast.FuncDecl)
			if !ok || fd.Name.Name != "NewAtom" || fd.Recv != nil {
				continue
			}
			regions := lockRegions(p, fd.Body)
			sort.Slice(regions, func(i, j int) bool { return regions[i].from < regions[j].from })
			type opAt struct {
				pos token.Pos
				op  string
			}
			var ops []opAt
			touches := func(n ast.Node) bool {
				found := false
				ast.Inspect(n, func(m ast.Node) bool {
					if id, ok := m.(*ast.Ident); ok {
						if v, ok := pkgLevelVar(p, id); ok && v == "atomTable" {
							found = true
						}
					}
					return true
				})
				return found
			}
			stmts := fd.Body.List
			for i := 0; i < len(stmts); i++ {
				s := stmts[i]
				if !touches(s) {
					continue
				}
				switch st := s.(type) {
				case *ast.ExprStmt, *ast.DeferStmt:
					continue // lock operations
				case *ast.AssignStmt:
					txt := nodeText(p, st)
					switch {
					case st.Tok == token.DEFINE && len(st.Lhs) == 2 && strings.Contains(txt, "atomTable.atoms[name]"):
						// a, ok := atomTable.atoms[name]; if ok { return a }
						if i+1 < len(stmts) {
							if is, ok := stmts[i+1].(*ast.IfStmt); ok && is.Init == nil && is.Else == nil && nodeText(p, is.Cond) == "ok" &&
								len(is.Body.List) == 1 && nodeText(p, is.Body.List[0]) == "return a" {
								ops = append(ops, opAt{st.Pos(), "OLookupReturnIfHit"})
								continue
							}
						}
						ops = append(ops, opAt{st.Pos(), "OUnknown"})
					case txt == "a = Atom(len(atomTable.names) + (utf8.MaxRune + 1))":
						ops = append(ops, opAt{st.Pos(), "OAllocNext"})
					case txt == "atomTable.atoms[name] = a":
						ops = append(ops, opAt{st.Pos(), "OPut"})
					case txt == "atomTable.names = append(atomTable.names, name)":
						ops = append(ops, opAt{st.Pos(), "OAppendName"})
					default:
						ops = append(ops, opAt{st.Pos(), "OUnknown"})
					}
				default:
					ops = append(ops, opAt{s.Pos(), "OUnknown"})
				}
			}
			used := map[int]bool{}
			for _, r := range regions {
				if r.v != "atomTable" {
					continue
				}
				var os []string
				for i, o := range ops {
					if o.pos >= r.from && o.pos <= r.to {
						os = append(os, o.op)
						used[i] = true
					}
				}
				mode := "RWrite"
				if r.mode == "read" {
					mode = "RRead"
				}
				out = append(out, fmt.Sprintf("(%s, [%s])", mode, strings.Join(os, "; ")))
			}
			for i, o := range ops {
				if !used[i] {
					out = append(out, fmt.Sprintf("(RNone, [%s])", o.op))
				}
			}
		}
	}
	return out
}

func nodeText(p *pkgInfo, n ast.Node) string {
	var b strings.Builder
	_ = printerFprint(&b, p.fset, n)
	return b.String()
}

func genShared(repo, outDir string) {
	var b strings.Builder
	b.WriteString("(* Generated by tools/go2coq shared from the engine and root packages. Do not edit. *)\n")
	b.WriteString("From Coq Require Import List String.\nFrom PV Require Import Model.Shared.\nImport ListNotations.\nOpen Scope string_scope.\n\n")
	var allVars, allAcc, dead []string
	var regions []string
	for _, dir := range []string{"engine", "."} {
		p := load(filepath.Join(repo, dir))
		pkgName := "engine"
		if dir == "." {
			pkgName = "prolog"
		}
		// package-level variables
		scope := p.pkg.Scope()
		names := scope.Names()
		sort.Strings(names)
		for _, n := range names {
			if v, ok := scope.Lookup(n).(*types.Var); ok {
				kind := "VOther"
				ts := v.Type().String()
				switch {
				case strings.Contains(ts, "sync.RWMutex") || strings.Contains(ts, "sync.Mutex"):
					kind = "VWithMutex"
				case strings.HasPrefix(ts, "*"):
					kind = "VPointer"
				case strings.HasPrefix(ts, "map["):
					kind = "VMap"
				}
				allVars = append(allVars, fmt.Sprintf("(%q, %q, %s)", pkgName+"."+n, ts, kind))
			}
		}
		var acc []sharedAccess
		refs := map[string]int{}
		for _, f := range p.files {
			for _, d := range f.Decls {
				switch dd := d.(type) {
				case *ast.FuncDecl:
					fn := dd.Name.Name
					if dd.Recv != nil && len(dd.Recv.List) > 0 {
						fn = strings.TrimPrefix(nodeText(p, dd.Recv.List[0].Type), "*") + "." + fn
					}
					if dd.Body != nil {
						collectAccesses(p, fn, dd.Body, lockRegions(p, dd.Body), dd.Name.Name == "init" && dd.Recv == nil, &acc)
					}
				case *ast.GenDecl:
					if dd.Tok == token.VAR {
						for _, sp := range dd.Specs {
							vs := sp.(*ast.ValueSpec)
							for _, val := range vs.Values {
								collectAccesses(p, "<initialiser>", val, nil, true, &acc)
							}
						}
					}
				}
			}
			ast.Inspect(f, func(n ast.Node) bool {
				if id, ok := n.(*ast.Ident); ok {
					if fo, ok := p.info.Uses[id].(*types.Func); ok && fo.Pkg() == p.pkg {
						refs[fo.FullName()]++
					}
				}
				return true
			})
		}
		for _, f := range p.files {
			for _, d := range f.Decls {
				if fd, ok := d.(*ast.FuncDecl); ok && fd.Recv == nil && !ast.IsExported(fd.Name.Name) && fd.Name.Name != "init" && fd.Name.Name != "main" {
					if fo, ok := p.info.Defs[fd.Name].(*types.Func); ok && refs[fo.FullName()] == 0 {
						dead = append(dead, fmt.Sprintf("%q", fd.Name.Name))
					}
				}
			}
		}
		sort.Slice(acc, func(i, j int) bool { return acc[i].pos < acc[j].pos })
		for _, a := range acc {
			allAcc = append(allAcc, fmt.Sprintf("mkA %q %q %s %s", pkgName+"."+a.v, a.fn, a.kind, a.lock))
		}
		if dir == "engine" {
			regions = internRegions(p)
		}
	}
	fmt.Fprintf(&b, "Definition shared_vars : list (string * string * vkind) := [\n  %s\n].\n\n", strings.Join(allVars, ";\n  "))
	fmt.Fprintf(&b, "Definition shared_accesses : list access := [\n  %s\n].\n\n", strings.Join(allAcc, ";\n  "))
	fmt.Fprintf(&b, "(* unexported functions that no non-test code refers to *)\nDefinition dead_functions : list string := [%s].\n\n", strings.Join(dead, "; "))
	fmt.Fprintf(&b, "(* the critical sections of NewAtom *)\nDefinition intern_regions : list region := [\n  %s\n].\n", strings.Join(regions, ";\n  "))
	writeIfChanged(filepath.Join(outDir, "Shared_gen.v"), b.String())
}

func printerFprint(w io.Writer, fset *token.FileSet, n ast.Node) error {
	return printer.Fprint(w, fset, n)
}
