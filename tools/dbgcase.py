#!/usr/bin/env python3
"""dbgcase.py Cxx id : show program/query, observed outcome, model run and spec run for one case of work/Cxx."""
import re, json, sys, subprocess, glob
pid, cid = sys.argv[1], sys.argv[2]
d = "/verif/work/%s" % pid
r = json.load(open(d + "/run.json"))
c = r["cases"][cid]
print(c["program"]); print("?-", c["query"])
line = None
for f in glob.glob(d + "/cases_prog_*.v"):
    m = re.search(r'^\(%s, .*$' % cid, open(f).read(), flags=re.M)
    if m:
        line = m.group(0).rstrip(';')
        dyn = "check_both true" in open(f).read()
src = '''From Coq Require Import ZArith List String.
From PV Require Import Model.Term Model.Machine Model.Boot Model.MachineCheck Model.Sld.
Import ListNotations.
Open Scope Z_scope.
Open Scope string_scope.
Definition c : pcase := %s.
Eval vm_compute in match c with (id, prog, q, qvars, limit, oans, oe) => ("MODEL", run MFUEL (%s prog) q qvars limit, "SPEC", s_run MFUEL (s_program_db %s prog) QBASE q qvars limit, "OBSERVED", oans, oe) end.
''' % (line, "dynamic_db" if dyn else "program_db", "true" if dyn else "false")
open("/tmp/dbgcase.v", "w").write(src)
print(subprocess.run(["coqc", "-Q", "/verif/coq", "PV", "/tmp/dbgcase.v"], stdout=subprocess.PIPE, stderr=subprocess.STDOUT, text=True).stdout[-3000:])
