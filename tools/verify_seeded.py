#!/usr/bin/env python3
"""Independent confirmation of a seeded change (run by the main session, not the sub-agent).

verify_seeded.py <src dir with patch/demo/meta> <Cxx> [suffix]   ->  /verif/seeded/<Cxx><suffix>/

In a scratch worktree of /repo's HEAD (outside /repo and /verif): the patch applies, the tree
builds, the existing suite passes (same single root-only failure as the baseline), the demo
fails with the patch and passes without it. The worktree is removed afterwards.
"""
import json, os, re, shutil, subprocess, sys, glob

src, pid = sys.argv[1], sys.argv[2]
suffix = sys.argv[3] if len(sys.argv) > 3 else ""
env = dict(os.environ, GOFLAGS="-mod=mod", GOPROXY="off", GOSUMDB="off", GOTOOLCHAIN="local")
wt = "/tmp/vw_%s%s" % (pid, suffix)
name = pid + (suffix and "_" + suffix.strip("_"))
if len(sys.argv) > 4:
    name = sys.argv[4]
dst = "/verif/seeded/" + name

def sh(cmd, cwd=None, timeout=1200):
    p = subprocess.run(cmd, cwd=cwd, env=env, shell=isinstance(cmd, str), stdout=subprocess.PIPE, stderr=subprocess.STDOUT, text=True, timeout=timeout)
    return p.returncode, p.stdout

def pick(pattern):
    c = [f for f in glob.glob(os.path.join(src, pattern))]
    return c[0] if c else None

if suffix and pick("patch%s.diff" % suffix):
    patch = pick("patch%s.diff" % suffix)
    demo = pick("demo%s_test.go" % suffix) or pick("demo_test%s.go" % suffix)
    meta = pick("meta%s.json" % suffix)
else:
    patch, demo, meta = pick("patch.diff"), pick("demo_test.go"), pick("meta.json")
assert patch and demo, (patch, demo)
res = {"patch": patch, "demo": demo}
sh("git -C /repo worktree remove --force %s" % wt)
rc, out = sh("git -C /repo worktree add -q --detach %s HEAD" % wt)
assert rc == 0, out
try:
    first = open(demo).readline()
    m = re.search(r"place in:\s*(\S+)", first)
    place = (m.group(1) if m else ".").strip("`'\"")
    demofile = os.path.join(wt, place, "zz_seeded_demo_test.go")
    def suite():
        rc, out = sh("go test -vet=off -count=1 ./... 2>&1", cwd=wt)
        fails = sorted(set(re.findall(r"^\s*--- FAIL: (\S+)", out, flags=re.M)))
        return fails, out
    def rundemo():
        shutil.copy(demo, demofile)
        names = re.findall(r"^func (Test\w+)\(", open(demo).read(), flags=re.M)
        rc, out = sh("go test -vet=off -count=1 -race -run '^(%s)$' ./%s 2>&1" % ("|".join(names) or "TestSeeded", place), cwd=wt)
        os.remove(demofile)
        return rc, out
    rc0, out0 = rundemo()
    res["demo_without_patch"] = "pass" if rc0 == 0 else "FAIL: " + out0[-800:]
    rc, out = sh("git apply %s" % patch, cwd=wt)
    res["applies"] = rc == 0
    if rc != 0:
        res["apply_log"] = out[-800:]
    else:
        rc, out = sh("go build ./...", cwd=wt)
        res["builds"] = rc == 0
        fails, out = suite()
        allowed = {"TestOpen", "TestOpen/the_source/sink_specified_by_sourceSink_cannot_be_opened"}
        extra = [f for f in fails if f not in allowed]
        if extra:  # timing-sensitive test under load: retry once
            fails2, _ = suite()
            extra = [f for f in fails2 if f not in allowed and f in extra]
        res["suite_extra_failures"] = extra
        rc1, out1 = rundemo()
        res["demo_with_patch"] = "fails" if rc1 != 0 else "PASSES (mutant not demonstrated)"
        res["demo_with_patch_tail"] = out1[-600:]
    ok = res.get("applies") and res.get("builds") and not res.get("suite_extra_failures") and rc0 == 0 and res.get("demo_with_patch") == "fails"
    res["confirmed"] = bool(ok)
    if ok:
        os.makedirs(dst, exist_ok=True)
        shutil.copy(patch, os.path.join(dst, "patch.diff"))
        shutil.copy(demo, os.path.join(dst, "demo_test.go"))
        md = json.load(open(meta)) if meta else {}
        md["property"] = pid
        md["confirmed_by_main_session"] = {"base_commit": subprocess.check_output(["git", "-C", "/repo", "rev-parse", "--short", "HEAD"], text=True).strip(),
            "ran": ["git apply patch.diff", "go build ./...", "go test -vet=off -count=1 ./... (only the root-only TestOpen subtest fails)",
                    "demo fails with the patch", "demo passes without it"]}
        json.dump(md, open(os.path.join(dst, "meta.json"), "w"), indent=1)
finally:
    sh("git -C /repo worktree remove --force %s" % wt)
print(name, json.dumps({k: v for k, v in res.items() if k not in ("demo_with_patch_tail",)}))
