#!/usr/bin/env python3
"""register.py Cxx "<level text>" "<technique>" "<level note>" -- add a check to MANIFEST.json"""
import json, sys
pid, text, tech, note = sys.argv[1:5]
m = json.load(open('/verif/MANIFEST.json'))
m['checks'] = [c for c in m['checks'] if c['property_id'] != pid]
m['checks'].append({
    "property_id": pid,
    "quick_cmd": "./check %s --tier quick" % pid,
    "thorough_cmd": "./check %s --tier thorough" % pid,
    "evidence_file": "evidence/%s.json" % pid,
    "replay_cmd_template": "./check %s --replay {path}" % pid,
    "engine": "coq",
    "level_claimed": {"category": "proof", "text": text, "design_ref": "DESIGN.md section 5 %s" % pid},
    "level_note": note,
    "technique": tech,
})
m['not_applicable'] = [x for x in m['not_applicable'] if x['property_id'] != pid]
for e in m['engines']:
    if pid not in e['serves_properties']:
        e['serves_properties'] = sorted(e['serves_properties'] + [pid])
json.dump(m, open('/verif/MANIFEST.json', 'w'), indent=1)
print("registered", pid)
