#!/bin/sh
# run_all_quick.sh: every check's quick command on the tree as it is (evidence is rewritten)
cd /verif
git -C /repo diff --quiet || { echo "/repo is dirty"; exit 2; }
for p in C01 C02 C03 C04 C05 C06 C07 C08 C09 C10 C11 C12 C13 C14 C15 C16 C17 C18 C19 C20; do
  ./check $p --tier quick 2>&1 | tail -1
done
